"""C18 - expansion is total: PANIC-LEDGER over the type-checked crate + termination of recursive functions.

Engine M lists every panic-capable site of derive_more-impl (all features): explicit panics
(panic!/assert!/unreachable!/unimplemented!), Option/Result unwrap/expect, `Index::index` calls and
bounds checks, arithmetic asserts, and calls into external functions documented to panic on bad
arguments (`format_ident!` -> mk_ident, `Ident::new`, `parse_quote!` -> syn::__private::parse).
Each site must be covered by a ledger row (file, function, kind): a *diagnostic* (a message naming the
unsupported input), *input-guaranteed*, *guarded* (a recogniser re-proves the guard on every run from the
enclosing conditions in the syntax tree) or *audited* (one reason per row). A site no row covers, more
sites than a row allows, or a guard that is no longer recognised is reported.
"""
import re

from .. import ast as A
from .. import tpl as T
from .. import types as TY
from . import cfg as CFG


# ---------------------------------------------------------------- sites


def panic_sites(m):
    """[(rel, fn, kind, line, detail)]"""
    sites = []
    for b in m.bodies:
        fnp = m.parent_fn(b["path"])
        for c in b["calls"]:
            cal = c["callee"]
            kind = None
            if cal in ("std::rt::panic_fmt",) or cal.startswith("core::panicking::") or cal.startswith("std::rt::begin_panic") or cal.startswith("std::rt::panic_"):
                mac = [x for x in c["macros"] if x in ("panic", "unreachable", "unimplemented", "assert", "assert_eq", "assert_ne", "todo", "debug_assert")]
                kind = "panic:" + (mac[0] if mac else "?")
            elif re.search(r"Option::<T>::(unwrap|expect)$", cal) or re.search(r"Result::<T, E>::(unwrap|expect|unwrap_err|expect_err)$", cal):
                kind = "unwrap:" + cal.split("::")[-1] + ":" + ("Option" if "Option" in cal else "Result")
            elif cal.endswith("ops::Index::index") or cal.endswith("ops::IndexMut::index_mut"):
                st = c["self_ty"]
                kind = "index:" + ("str" if st in ("str", "std::string::String") else "vec")
            elif cal in ("quote::__private::mk_ident", "proc_macro2::Ident::new", "syn::Ident::new"):
                kind = "extern:" + ("format_ident" if "format_ident" in c["macros"] else "Ident::new")
            elif cal == "syn::__private::parse" and "parse_quote" in c["macros"]:
                kind = "extern:parse_quote"
            if kind:
                sites.append((c["rel"], fnp, kind, c["line"], cal))
        for a in b["asserts"]:
            k = re.split(r"[ ({]", a["kind"])[0]
            if k in ("NullPointerDereference", "MisalignedPointerDereference"):
                continue
            sites.append((a["rel"], fnp, "assert:" + k, a["line"], a["detail"][:80]))
    return sites


# ---------------------------------------------------------------- conditions holding at a source position


def _diverges(block):
    """does this block always leave (return / break / continue / panic-like / call of a `-> !` helper)?"""
    st = block["stmts"]
    if not st:
        return False
    last = st[-1]
    k = A.kind(last)
    e = last["0"] if k == "Stmt::Expr" else None
    if k == "Stmt::Macro":
        return A.path_last(last["mac"]["path"]) in ("panic", "unreachable", "unimplemented", "todo")
    if e is None:
        return False
    ke = A.kind(e)
    if ke in ("Expr::Return", "Expr::Break", "Expr::Continue"):
        return True
    if ke == "Expr::Macro":
        return A.path_last(e["mac"]["path"]) in ("panic", "unreachable", "unimplemented", "todo")
    if ke == "Expr::Call":
        return (A.path_str(e["func"]) or "").split("::")[-1].startswith("panic_")
    if ke == "Expr::MethodCall":
        return e["method"]["sym"].startswith("panic_")
    return False


def conditions_at(fn, line):
    """conditions known to hold at `line` of `fn`: enclosing `if` conditions (negated in else branches),
    enclosing match-arm patterns ("match <scrutinee> => <pattern>"), and negations of earlier
    `if C { <diverges> }` guards in the enclosing blocks"""
    f = fn.file
    out = []

    def contains(node):
        sp = A.span_of(node)
        return sp is not None and f.line(sp[0]) <= line <= f.line(sp[1])

    def visit_block(block):
        for st in block["stmts"]:
            sp = A.span_of(st)
            if sp is None:
                continue
            if f.line(sp[1]) < line:
                # an earlier guard?
                e = st["0"] if A.kind(st) == "Stmt::Expr" else None
                if e is not None and A.kind(e) == "Expr::If" and not e.get("else_branch") and _diverges(e["then_branch"]):
                    out.append("not(" + A.render(e["cond"]) + ")")
                if A.kind(st) == "Stmt::Local" and st.get("init") and st["init"].get("diverge"):
                    out.append("let-else:" + A.render_pat(st["pat"]) + "=" + A.render(st["init"]["expr"]))
                continue
            if f.line(sp[0]) > line:
                break
            visit(st)

    def visit(node):
        for x, ps in A.walk(node):
            k = A.kind(x)
            if k == "Block" and contains(x) and x is not node:
                visit_block(x)
                return
            if k == "Expr::If" and contains(x):
                if contains(x["then_branch"]):
                    out.append(A.render(x["cond"]))
                    visit_block(x["then_branch"])
                    return
                if x.get("else_branch") and contains(x["else_branch"][1]):
                    out.append("not(" + A.render(x["cond"]) + ")")
                    visit(x["else_branch"][1])
                    return
            if k == "Arm" and contains(x["body"]):
                mt = next((p for p in reversed(ps) if A.kind(p) == "Expr::Match"), None)
                out.append("match " + (A.render(mt["expr"]) if mt else "?") + "=>" + A.render_pat(x["pat"]) + (" if " + A.render(x["guard"][1]) if x.get("guard") else ""))
                visit(x["body"])
                return

    visit_block(fn.block)
    # a closure bound by `let f = |..| {..};` whose only other mention is `(C).then_some(f)` / `C.then(|| f)` is called
    # under C only: C holds inside its body
    for st, _ in A.find(fn.block, "Stmt::Local"):
        pat = st["pat"]
        if A.kind(pat) == "Pat::Type":
            pat = pat["pat"]
        init = st.get("init", {}).get("expr") if st.get("init") else None
        if A.kind(pat) != "Pat::Ident" or init is None or A.kind(init) != "Expr::Closure" or not contains(init):
            continue
        nm_ = pat["ident"]["sym"]
        # the binding's scope: the statements after it, up to and including the initialiser of a `let` that rebinds the name
        scope = []
        for blk, _b in list(A.find(fn.block, "Block")) + [(fn.block, ())]:
            sts = blk.get("stmts") or []
            if any(s_ is st for s_ in sts):
                for s_ in sts[[i for i, q in enumerate(sts) if q is st][0] + 1 :]:
                    scope.append(s_)
                    if A.kind(s_) == "Stmt::Local" and nm_ in A.pat_idents(s_["pat"]):
                        break
                break
        uses = [(x, ps) for s_ in scope for x, ps in A.walk(s_) if A.kind(x) == "Expr::Path" and A.path_str(x) == nm_]
        if len(uses) != 1:
            continue
        x, ps = uses[0]
        par = next((p for p in reversed(ps) if A.kind(p) not in ("Expr::Paren", "Expr::Group")), None)
        if par is not None and A.kind(par) == "Expr::MethodCall" and par["method"]["sym"] == "then_some" and len(par["args"]) == 1 and A.peel(par["args"][0]) is x:
            c_ = A.render(A.peel(par["receiver"]))
            out.append("not(" + c_[1:] + ")" if c_.startswith("!") else c_)
    # consequences: `let` aliases inlined (`fields_count` -> `fields.len()`), a conjunction holds part-wise, the negation
    # of a disjunction negates every part
    als = A.aliases(fn)
    res = []

    def split_top(c, op):
        parts, depth, cur, i = [], 0, "", 0
        while i < len(c):
            ch = c[i]
            if ch in "([{":
                depth += 1
            elif ch in ")]}":
                depth -= 1
            if depth == 0 and c.startswith(op, i):
                parts.append(cur)
                cur = ""
                i += len(op)
                continue
            cur += ch
            i += 1
        parts.append(cur)
        return parts

    def add(c):
        if c in res:
            return
        res.append(c)
        ci = A.inline_text(c, als)
        if ci != c:
            add(ci)
        if c.startswith("not(") and c.endswith(")"):
            inner = c[4:-1]
            ors = split_top(inner, "||")
            if len(ors) > 1:
                for o in ors:
                    add("not(" + o + ")")
        elif not c.startswith("match ") and not c.startswith("let-else:"):
            ands = split_top(c, "&&")
            if len(ands) > 1:
                for a_ in ands:
                    add(a_)

    for c in out:
        add(c)
    return res


# ---------------------------------------------------------------- ledger

D = "diagnostic"
G = "guarded"
AU = "audited"
IN = "input-guaranteed"

# (file, function suffix, kind) -> (max sites, class, reason / recogniser regex over conditions_at)
LEDGER = [
    # ---- deliberate diagnostics (message literal is checked to exist)
    ("impl/src/add_assign_like.rs", "add_assign_like::expand", "panic:panic", 2, D, None),
    ("impl/src/add_like.rs", "add_like::expand", "panic:panic", 2, D, None),
    ("impl/src/not_like.rs", "not_like::expand", "panic:panic", 2, D, None),
    ("impl/src/constructor.rs", "constructor::expand", "panic:panic", 1, D, None),
    ("impl/src/from_str.rs", "from_str::enum_from", "panic:panic", 1, D, None),
    ("impl/src/from_str.rs", "from_str::panic_one_field", "panic:panic", 1, D, None),
    ("impl/src/is_variant.rs", "is_variant::expand", "panic:assert", 1, D, None),
    ("impl/src/try_into.rs", "try_into::expand", "panic:assert", 1, D, None),
    ("impl/src/try_unwrap.rs", "try_unwrap::expand", "panic:assert", 1, D, None),
    ("impl/src/unwrap.rs", "unwrap::expand", "panic:assert", 1, D, None),
    ("impl/src/try_unwrap.rs", "try_unwrap::get_field_info", "panic:panic", 1, D, None),
    ("impl/src/unwrap.rs", "unwrap::get_field_info", "panic:panic", 1, D, None),
    ("impl/src/utils.rs", "enabled_fields_data", "panic:panic", 1, D, None),
    ("impl/src/utils.rs", "enabled_variant_data", "panic:panic", 1, D, None),
    ("impl/src/utils.rs", "new_impl", "panic:panic", 1, D, None),
    ("impl/src/utils.rs", "utils::panic_one_field", "panic:panic", 1, D, None),
    # ---- guarded: the regex must match one of the conditions holding at the site
    ("impl/src/as/mod.rs", "r#as::expand", "unwrap:unwrap:Option", 1, G, r"not\(data\.fields\.len\(\)!=1\)"),
    ("impl/src/fmt/debug.rs", "generate_body", "panic:unreachable", 1, G, r"match self\.fields=>syn::Fields::Named\("),
    ("impl/src/fmt/display.rs", "generate_body", "panic:unreachable", 1, G, r"^self\.fields\.len\(\)==1$"),
    ("impl/src/from.rs", "expand_fields", "panic:unreachable", 2, G, r"^self\.fields\.len\(\)==1$|match self\.fields=>syn::Fields::Named\(_\)\|syn::Fields::Unnamed\(_\)"),
    ("impl/src/from.rs", "from::legacy_error", "panic:unreachable", 1, G, r"match fields\.len\(\)=>1"),
    ("impl/src/into.rs", "into::check_legacy_syntax", "panic:unreachable", 2, G, r"match fields\.len\(\)=>1|not\(\[&owned,&ref_,&ref_mut\]\.into_iter\(\)\.any\(Option::is_some\)\)"),
    ("impl/src/from_str.rs", "from_str::enum_from", "index:vec", 1, G, r"^variants\.len\(\)==1$"),
    ("impl/src/utils.rs", "assert_single_enabled_field", "index:vec", 5, G, r"not\(data\.fields\.len\(\)!=1\)"),
    ("impl/src/error.rs", "error::parse_fields", "unwrap:unwrap:Option", 1, G, r"match state\.derive_type=>DeriveType::Named"),
    ("impl/src/error.rs", "error::infer_source_field", "index:vec", 1, G, r"not\((?:\w+\.)*fields\.len\(\)!=2\)"),
    ("impl/src/utils.rs", "parse_punctuated_nested_meta", "unwrap:unwrap:Option", 2, G, r"not\(!allowed_attr_params\.iter\(\)\.any\(\|param\|path\.is_ident\(param\)\)\)"),
    ("impl/src/not_like.rs", "enum_output_type_and_content", "unwrap:unwrap:Option", 1, G, r"match variant\.fields=>Fields::Named\("),
    # ---- audited (one reason per row)
    ("impl/src/lib.rs", "_derive", "unwrap:unwrap:Result", 1, IN, "rustc hands a derive macro the tokens of a syntactically valid item: `syn::parse(input)` cannot fail"),
    ("impl/src/add_helpers.rs", "add_helpers::struct_exprs", "unwrap:unwrap:Option", 1, AU, "called only with the fields of a `Fields::Named` (add_like / add_assign_like / struct arms): named fields have identifiers"),
    ("impl/src/as/mod.rs", "r#as::expand", "panic:unreachable", 1, AU, "`Skip` next to other attributes was rejected a few lines above (`if !all { .. return Err }`)"),
    ("impl/src/error.rs", "error::parse_fields", "panic:unreachable", 3, AU, "the closures are called by parse_field_impl with the literals \"source\"/\"backtrace\" only; parse_fields is called for struct / variant states (Named | Unnamed)"),
    ("impl/src/error.rs", "error::is_type_path_ends_with_segment", "unwrap:unwrap:Option", 1, AU, "a parsed syn::Path always has at least one segment"),
    ("impl/src/error.rs", "error::infer_source_field", "assert:Overflow", 1, AU, "`backtrace + 1` with backtrace < number of fields"),
    ("impl/src/error.rs", "error::infer_source_field", "assert:RemainderByZero", 1, AU, "`% 2`: constant divisor"),
    ("impl/src/error.rs", "ParsedFields", "index:vec", 8, AU, "positions produced by enumerate() over the same (enabled) collections; spaces checked by IDX-SPACE on every run"),
    ("impl/src/error.rs", "error::parse_fields", "index:vec", 1, AU, "enabled position into the enabled field types (IDX-SPACE)"),
    ("impl/src/fmt/display.rs", "generate_bounds", "unwrap:unwrap:Option", 1, AU, "runs under `mix_shared_attr_bounds`, which is `has_shared_attr` (= shared_attr.is_some_and(..)) or `has_shared_attr && ..`"),
    ("impl/src/fmt/display.rs", "fmt::display::normalize_trait_name", "panic:unimplemented", 1, AU, "closed set: covers every trait registered for fmt::display in impl/src/lib.rs (re-checked against the create_derive! table)"),
    ("impl/src/fmt/display.rs", "fmt::display::trait_name_to_default_placeholder_literal", "panic:unimplemented", 1, AU, "closed set of the nine fmt traits (re-checked)"),
    ("impl/src/fmt/mod.rs", "fmt::trait_name_to_attribute_name", "panic:unimplemented", 1, AU, "closed set of the nine fmt traits (re-checked)"),
    ("impl/src/fmt/mod.rs", "contains_generics", "panic:unimplemented", 3, AU, "wildcards required by syn's #[non_exhaustive] enums; every current variant is handled explicitly (TRAVERSE rule, re-checked against the syn sources)"),
    ("impl/src/fmt/mod.rs", "fmt::Placeholder::parse_fmt_string", "assert:Overflow", 4, AU, "counter bounded by the number of placeholders; `n - 1` directly after `n += 1`"),
    ("impl/src/fmt/parsing.rs", "fmt::parsing::", "index:str", 9, AU, "slices at `c.len_utf8()` / `s.len()` after a successful prefix test, or `..(input.len() - rest.len())` with `rest` a suffix of `input` (shapes re-checked by G-COMB)"),
    ("impl/src/fmt/parsing.rs", "fmt::parsing::", "assert:Overflow", 4, AU, "`input.len() - rest.len()` with `rest` a suffix of `input`"),
    ("impl/src/from.rs", "expand", "assert:Overflow", 1, AU, "`i += 1` once per field"),
    ("impl/src/from.rs", "expand", "panic:unreachable", 1, AU, "`validate_type` yields exactly one type per field (arity checked for >1 fields; the whole type for one field - guard re-checked)"),
    ("impl/src/from_str.rs", "from_str::enum_from", "unwrap:unwrap:Option", 1, AU, "variant states are built by State::from_variant, which sets `variant: Some(..)`"),
    ("impl/src/is_variant.rs", "is_variant::expand", "unwrap:unwrap:Option", 1, AU, "State::from_variant sets `variant: Some(..)`"),
    ("impl/src/unwrap.rs", "unwrap::", "unwrap:unwrap:Option", 2, AU, "State::from_variant sets `variant: Some(..)`"),
    ("impl/src/try_unwrap.rs", "try_unwrap::", "unwrap:unwrap:Option", 2, AU, "State::from_variant sets `variant: Some(..)`"),
    ("impl/src/try_into.rs", "try_into::expand", "unwrap:expect:Option", 1, AU, "enabled_fields_data of a variant state sets `variant_name: Some(..)`"),
    ("impl/src/into.rs", "FieldAttribute as syn::parse::Parse>::parse", "panic:unreachable", 1, AU, "never called: ParseMultiple::parse_attr_with is overridden and delegates to Untyped (re-checked)"),
    ("impl/src/utils.rs", "ReprInt as syn::parse::Parse>::parse", "panic:unreachable", 1, AU, "never called: ParseMultiple::parse_attr_with is overridden (re-checked)"),
    ("impl/src/utils.rs", "matcher", "assert:BoundsCheck", 1, AU, "`bindings[k]` with k < indexes.len(); every call site passes index and binding lists of equal length (array literals of equal size, or field_indexes with one binder per enabled field)"),
    ("impl/src/utils.rs", "utils::RefType::from_attr_name", "panic:panic", 1, AU, "called with the wrapper names owned/ref/ref_mut only (the enclosing match arm lists exactly those)"),
    ("impl/src/utils.rs", "field_idents", "unwrap:expect:Option", 2, AU, "called for DeriveType::Named / named field lists only"),
    ("impl/src/utils.rs", "new_impl", "unwrap:unwrap:Option", 1, AU, "`first_match` is found by `info.enabled.map(|_| info)`: `enabled` is Some"),
    ("impl/src/utils.rs", "validate_type", "assert:Overflow", 6, AU, "subtractions ordered by the preceding `cmp` (Greater / Less) or `self.len() > 1`"),
    ("impl/src/parsing.rs", "parsing::balanced_pair", "assert:Overflow", 2, AU, "`count` is >= 1 inside `while count != 0`; increments bounded by the token count"),
    ("impl/src/try_from.rs", "to_tokens", "assert:Overflow", 1, AU, "`inc += 1` once per variant"),
]

EXTERN_FLOOR = {"extern:format_ident": 54, "extern:parse_quote": 18, "extern:Ident::new": 4}


def _last_seg(path):
    t = path
    for _ in range(3):
        t = re.sub(r"<[^<>]*>", "", t)
    t = t.rstrip(":")
    return t.split("::")[-1] if t else t


def _fn_for(ctx, rel, line):
    f = ctx.files.get(rel)
    if f is None:
        return None
    best = None
    for fn in A.functions(f):
        lo, hi = TY.fn_span_lines(fn)
        if lo <= line <= hi and (best is None or lo >= TY.fn_span_lines(best)[0]):
            best = fn
    return best


def rule_panic_ledger(ctx):
    """PANIC-LEDGER: every panic-capable site rustc sees in derive_more-impl (explicit panics, unwrap/expect, indexing, arithmetic asserts, format_ident!/parse_quote!/Ident::new) is a diagnostic for unsupported input, input-guaranteed, guarded by a condition that is re-recognised at the site on this run, or audited with a reason; a site no ledger row covers is reported."""
    m = ctx.mir
    sites = panic_sites(m)
    used = {}
    by_kind = {}
    overflow = {}
    for rel, fnp, kind, line, detail in sites:
        bk = kind if kind.startswith("extern:") else kind.split(":")[0] + ":" + kind.split(":")[1]
        by_kind[bk] = by_kind.get(bk, 0) + 1
        if kind.startswith("extern:"):
            continue
        row = None
        for i, (lrel, lfn, lkind, n, cls, arg) in enumerate(LEDGER):
            if lrel == rel and lkind == kind and lfn in fnp:
                row = i
                break
        if row is None:
            # the function was moved (other file, into an impl): same kind, same function *name*, and no other row of
            # that kind carries the name
            last = _last_seg(fnp)
            cands = [i for i, (lrel, lfn, lkind, n, cls, arg) in enumerate(LEDGER) if lkind == kind and _last_seg(lfn) == last and last not in ("expand", "parse", "to_tokens", "fmt")]
            same_file = [i for i in cands if LEDGER[i][0] == rel]
            if len(same_file) == 1:
                row = same_file[0]
            elif len(cands) == 1:
                row = cands[0]
        if row is None and kind.startswith("panic:"):
            # a deliberate diagnostic moved between functions of one file (a `-> !` helper inlined into its caller, or
            # extracted from it): a *diagnostic* row of the same file and kind takes it; its message is still checked
            spare_d = [i for i, (lrel, lfn, lkind, n, cls, arg) in enumerate(LEDGER) if lrel == rel and lkind == kind and cls == D]
            if spare_d:
                row = spare_d[0]
        if row is None and not kind.startswith("panic:"):
            # code moved between functions of one file (a helper became a method of the type whose fields it indexes):
            # an *audited* row of the same file and kind whose budget is not used up takes it; the file-level total
            # below still bounds the number of such operations
            spare = [i for i, (lrel, lfn, lkind, n, cls, arg) in enumerate(LEDGER) if lrel == rel and lkind == kind and cls == AU]
            if spare:
                row = spare[0]
        if row is None:
            # the guarded operation moved into another function of the file (an extracted helper): a *guarded* row of the
            # same file and kind takes it if its guard is re-recognised at the new place (checked again below)
            fn_ = _fn_for(ctx, rel, line)
            conds_ = conditions_at(fn_, line) if fn_ else []
            for i, (lrel, lfn, lkind, n, cls, arg) in enumerate(LEDGER):
                if lrel == rel and lkind == kind and cls == G and any(re.search(arg, c_) for c_ in conds_):
                    row = i
                    break
        construct = f"{rel}::{fnp}:{kind}"
        if row is None:
            ctx.instance(construct)
            ctx.report(
                f"unaudited:{rel}::{fnp}:{kind}",
                f"{rel}:{line}",
                f"`{fnp}` contains a panic-capable operation ({kind}; {detail[:60]}) that no ledger row covers: prove that it cannot be reached for any derive input "
                "(or turn it into a `syn::Error`) and add the row",
                {},
            )
            continue
        used.setdefault(row, []).append((rel, fnp, kind, line))
    for row, lst in sorted(used.items()):
        lrel, lfn, lkind, n, cls, arg = LEDGER[row]
        construct = f"{lrel}::{lfn}:{lkind}"
        ctx.instance(construct, sample={"row": construct, "class": cls, "sites": len(lst), "why": arg})
        mult = 50 if cls == IN else 1
        if len(lst) > n * mult:
            overflow.setdefault((lrel, lkind), []).append((lfn, len(lst), n * mult, lst))
        if cls == G:
            for rel, fnp, kind, line in lst:
                fn = _fn_for(ctx, rel, line)
                conds = conditions_at(fn, line) if fn else []
                # `not(!(c))` (the else of `if !(c)`) is `c`
                conds = conds + [m_.group(1) for c_ in conds for m_ in [re.fullmatch(r"not\(!\((.*)\)\)", c_)] if m_] + [m_.group(1) for c_ in conds for m_ in [re.fullmatch(r"not\(!([\w.]+(?:\(\))?)\)", c_)] if m_]
                # a dead arm: `match E => P` under `not(matches!(E, P))` (an early return took that case) is never reached
                dead = any(
                    (m1 := re.fullmatch(r"match (.+)=>(.+)", c1)) and f"not(matches!({m1.group(1)},{m1.group(2)}))" in conds
                    for c1 in conds
                )
                if not dead and not any(re.search(arg, c) for c in conds):
                    ctx.report(
                        f"guard-lost:{construct}",
                        f"{rel}:{line}",
                        f"the {lkind} at {rel}:{line} (`{fnp}`) is no longer dominated by the guard `{arg}` (conditions holding there: {conds[:6]}): for some input it panics instead of reporting a diagnostic",
                        {},
                    )
        if cls == D:
            for rel, fnp, kind, line in lst:
                fn = _fn_for(ctx, rel, line)
                ok = False
                if fn:
                    for mac, ps in A.macros(fn.block, ("panic", "assert")):
                        sp = A.span_of(mac["path"])
                        if sp and fn.file.line(sp[0]) <= line <= fn.file.line(sp[0]) + 6:
                            lits = [t for t in mac["tokens"] if A.kind(t) == "Literal" and t["lit"].get("kind") == "str"]
                            if lits and len((lits[0]["lit"].get("value") or "").split()) >= 3:
                                ok = True
                if not ok:
                    ctx.report(f"diagnostic-lost:{construct}", f"{rel}:{line}", f"the deliberate panic in `{fnp}` no longer carries a message describing what is unsupported", {})
    # a row's budget may be exceeded only as far as the other rows of the same file and kind leave theirs unused
    # (code moved between functions); beyond the file's total a new panic-capable operation has been added
    for (lrel, lkind), over in sorted(overflow.items()):
        budget = sum(r[3] * (50 if r[4] == IN else 1) for r in LEDGER if r[0] == lrel and r[2] == lkind)
        found = sum(len(v) for row_, v in used.items() if LEDGER[row_][0] == lrel and LEDGER[row_][2] == lkind)
        if found > budget:
            lfn, have, allowed, lst = over[0]
            ctx.report(
                f"ledger-overflow:{lrel}::{lfn}:{lkind}",
                f"{lrel}:{lst[-1][3]}",
                f"{found} sites of kind {lkind} in {lrel} but the ledger audited {budget} ({have} of them in `{lfn}`, audited {allowed}): a new panic-capable operation was added (lines {sorted(x[3] for x in lst)})",
                {},
            )
    # external functions that panic on malformed arguments
    for k, floor in EXTERN_FLOOR.items():
        ctx.note(f"{by_kind.get(k, 0)} {k} sites (floor {floor})")
    n_fi = 0
    for fn in A.all_functions(ctx.files):
        if not fn.file.rel.startswith("impl/src"):
            continue
        for fi in T.format_idents_of(fn):
            n_fi += 1
            pat = fi["pattern"]
            construct = f"{fn.file.rel}::{fn.qual}:format_ident!({pat!r})"
            ctx.instance(construct, nontrivial=False)
            static = re.sub(r"\{[^}]*\}", "", pat or "")
            if pat is None or not re.fullmatch(r"[A-Za-z0-9_]*", static) or (pat and not (pat[0].isalpha() or pat[0] in "_{")):
                ctx.report(construct, f"{fn.file.rel}:{fi['line']}", f"`format_ident!({pat!r}, ..)` in `{fn.qual}`: the literal part is not identifier-safe (the macro panics on an invalid identifier)", {})
    ctx.floor("format_ident! sites", n_fi, 50)
    ctx.floor("panic-capable sites", len(sites), 180)
    ctx.extra["panic_sites_by_kind"] = by_kind


# ---------------------------------------------------------------- preconditions of dependency functions

EXT_CRATES = {"syn", "proc_macro2", "quote", "convert_case", "unicode_xid"}

# (file | "*", function suffix | "*", "Owner::fn") -> (class, recogniser / reason)
#   G   : a condition matching the regex holds at the call (re-recognised on this run; `{recv}` = rendered receiver)
#   S:* : a structural recogniser over the syntax tree (see _ext_structural)
#   AU  : audited, one reason per row
EXT_LEDGER = [
    ("impl/src/into.rs", "ConversionsAttribute as syn::parse::Parse>::parse", "Punctuated::push_value", G, r"^not\(!{recv}\.empty_or_trailing\(\)\)$|^{recv}\.empty_or_trailing\(\)$"),
    ("impl/src/into.rs", "ConversionsAttribute as syn::parse::Parse>::parse", "Punctuated::push_punct", "S:push_punct", None),
    ("*", "*", "Speculative::advance_to", "S:fork-of-receiver", None),
    ("*", "*", "ParseBuffer::advance_to", "S:fork-of-receiver", None),
    ("*", "*", "Lifetime::new", "S:literal-lifetime", None),
    ("*", "*", "Index::from", AU, "`syn::Index::from(usize)` asserts `index < u32::MAX`: every argument is a position in a parsed field list"),
    ("impl/src/into.rs", "ConversionsAttribute as syn::parse::Parse>::parse", "Punctuated::extend", AU, "`Extend<Pair>` panics on items after a `Pair::End`: the argument is `into_pairs()` of one parsed sequence, whose only `End` is its last pair"),
]


def _ext_key(c):
    """(crate, owner, fn, trait) of a call into a dependency, from the resolved callee"""
    cal = c["callee"]
    res = c.get("resolved") or ""

    def segs(path):
        t = path
        for _ in range(4):
            t = re.sub(r"<[^<>]*>", "", t)
        return [x for x in t.split("::") if x]

    sg = segs(cal)
    if sg and sg[0] in EXT_CRATES and len(sg) >= 3:
        return (sg[0], sg[-2], sg[-1], None)
    st = (c.get("self_ty") or "").lstrip("&").replace("mut ", "").strip()
    ss = segs(st)
    if ss and ss[0] in EXT_CRATES and sg:
        tr = None
        m = re.match(r"<.* as (.*)>::[A-Za-z_0-9]+$", res)
        if m:
            tr = m.group(1)
        return (ss[0], ss[-1], sg[-1], tr)
    return None


def _call_node(fn, c, name):
    """the syntax node of the MIR call `name` at c's position"""
    hits = []
    for x, ps in A.walk(fn.block):
        k = A.kind(x)
        nm = None
        if k == "Expr::MethodCall":
            nm = x["method"]["sym"]
        elif k == "Expr::Call":
            nm = (A.path_str(x["func"]) or "").split("::")[-1]
        if nm != name:
            continue
        sp = A.span_of(x)
        if sp and fn.file.line(sp[0]) <= c["line"] <= fn.file.line(sp[1]):
            hits.append((x, ps))
    # innermost
    hits.sort(key=lambda t: (A.span_of(t[0])[1] - A.span_of(t[0])[0]))
    return hits[0] if hits else (None, None)


def _binding_of(fn, name):
    for st, _ in A.find(fn.block, "Stmt::Local"):
        if A.pat_idents(st["pat"]) == [name] and st.get("init"):
            yield st["init"]["expr"]


def _is_fork_of(fn, e, recv, depth=0):
    """`e` denotes a stream obtained by `recv.fork()`: a local bound to it, or a closure parameter every call passes one for"""
    e = A.peel(e)
    if A.kind(e) == "Expr::MethodCall" and e["method"]["sym"] == "fork" and A.render(A.peel(e["receiver"])) == recv:
        return True
    nm = A.path_str(e)
    if nm is None or depth > 2:
        return False
    inits = list(_binding_of(fn, nm))
    if inits:
        return all(_is_fork_of(fn, i, recv, depth + 1) for i in inits)
    # closure parameter: `let f = |ahead, ..| { .. }` called as `f(x, ..)`
    for st, _ in A.find(fn.block, "Stmt::Local"):
        init = st.get("init")
        if init and A.kind(init["expr"]) == "Expr::Closure" and len(A.pat_idents(st["pat"])) == 1:
            cl = init["expr"]
            params = [A.pat_idents(p_)[0] if A.pat_idents(p_) else None for p_ in cl["inputs"]]
            if nm in params:
                idx = params.index(nm)
                fname = A.pat_idents(st["pat"])[0]
                calls = [x for x, _ in A.calls(fn.block, lambda p_: p_ == fname)]
                return bool(calls) and all(len(x["args"]) > idx and _is_fork_of(fn, x["args"][idx], recv, depth + 1) for x in calls)
    return False


def _ext_structural(kind, fn, node, ps):
    if node is None:
        return False, "call not found in the syntax tree"
    if kind == "S:fork-of-receiver":
        recv = A.render(A.peel(node["receiver"])) if A.kind(node) == "Expr::MethodCall" else None
        if recv is None or not node["args"]:
            return False, "not a method call"
        return _is_fork_of(fn, node["args"][0], recv), f"the argument is not a fork of `{recv}`"
    if kind == "S:literal-lifetime":
        a = node["args"][0] if node.get("args") else None
        v = a["lit"]["token"]["value"] if a is not None and A.kind(a) == "Expr::Lit" and A.kind(a["lit"]) == "Lit::Str" else None
        return bool(v and re.fullmatch(r"'[A-Za-z_][A-Za-z0-9_]*", v)), "the lifetime name is not a literal `'ident`"
    if kind == "S:push_punct":
        # `R.push_punct(..)` needs a last value without punctuation: either under `!R.empty_or_trailing()`, or straight
        # after `R.push_value(..)` (possibly inside an `if` that follows it)
        recv = A.render(A.peel(node["receiver"]))
        conds = conditions_at(fn, fn.file.line(A.span_of(node)[0]))
        if any(c_ in (f"!{recv}.empty_or_trailing()", f"not({recv}.empty_or_trailing())") for c_ in conds):
            return True, ""
        chain = list(ps) + [node]
        for i in range(len(chain) - 1, 0, -1):
            par = chain[i - 1]
            if A.kind(par) == "Block":
                stmts = par["stmts"]
                me = chain[i]
                idx = next((k_ for k_, s_ in enumerate(stmts) if s_ is me), None)
                if idx is None:
                    continue
                if idx > 0:
                    prev = stmts[idx - 1]
                    pe = prev.get("0") if A.kind(prev) == "Stmt::Expr" else None
                    if pe is not None and A.kind(pe) == "Expr::MethodCall" and pe["method"]["sym"] == "push_value" and A.render(A.peel(pe["receiver"])) == recv:
                        return True, ""
                    return False, f"the statement before is not `{recv}.push_value(..)`"
                # first statement of a nested block: keep climbing (through `if`)
        return False, f"neither `!{recv}.empty_or_trailing()` holds nor does `{recv}.push_value(..)` precede"
    return False, "unknown recogniser"


def rule_extern_preconditions(ctx):
    """EXT-PRE: every call from derive_more-impl into a dependency function that has a precondition - a `# Panics` section in its documentation, or an explicit panic!/assert! in its body (or in a private function it calls), read from the dependency sources the lock file selects - is made with that precondition established: under a guard re-recognised at the call on this run, by a structural recogniser (a fork of the same stream handed to `advance_to`, `push_punct` straight after `push_value`, a literal lifetime name), or audited with a reason. An unlisted call is reported: for some attribute text the derive would panic instead of reporting an error."""
    from .. import extsrc

    pre, versions = extsrc.preconditions(ctx.repo)
    ctx.note("dependency sources read: " + ", ".join(f"{k} {v}" for k, v in sorted(versions.items())) + f"; {len(pre)} functions with a precondition")
    if not {"syn", "proc-macro2", "quote"} <= set(versions):
        raise A.AnchorLost("Cargo.lock / cargo registry", "sources of syn / proc-macro2 / quote not found")
    # positive control: the scanner still sees the preconditions this rule was built around
    for k in (("syn", "Punctuated", "push_value"), ("syn", "Punctuated", "push_punct"), ("syn", "Lifetime", "new"), ("syn", "Speculative", "advance_to")):
        if k not in pre:
            raise A.AnchorLost("dependency sources", f"`{k[1]}::{k[2]}` of {k[0]} is no longer recognised as a function with a precondition")
    m = ctx.mir
    n_calls = 0
    n_hit = 0
    for b in m.bodies:
        fnp = m.parent_fn(b["path"])
        for c in b["calls"]:
            key = _ext_key(c)
            if key is None:
                continue
            n_calls += 1
            ents = pre.get(key[:3])
            if not ents:
                continue
            if key[3] is not None:
                want = extsrc.norm_trait(key[3])
                ents = [e for e in ents if e["trait"] is None or e["trait"] == want]
                if not ents:
                    continue
            n_hit += 1
            rel = c["rel"]
            what = f"{key[1]}::{key[2]}"
            construct = f"{rel}::{fnp}:{what}"
            ctx.instance(construct, sample={"call": construct, "precondition": ents[0]["why"], "source": f"{ents[0]['file']}:{ents[0]['line']}"})
            row = next((r for r in EXT_LEDGER if r[2] == what and r[0] in ("*", rel) and (r[1] == "*" or r[1] in fnp)), None)
            where = f"{rel}:{c['line']}"
            if row is None:
                ctx.report(f"ext-pre:unlisted:{construct}", where, f"`{fnp}` calls `{key[0]}::{what}`, which panics when its precondition does not hold ({ents[0]['why']}, {ents[0]['file']}:{ents[0]['line']}), and nothing establishes that precondition here: some derive input makes the macro panic instead of reporting an error", {})
                continue
            cls, arg = row[3], row[4]
            if cls == AU:
                continue
            fn = _fn_for(ctx, rel, c["line"])
            if fn is None:
                ctx.report(f"ext-pre:nofn:{construct}", where, "enclosing function not found in the syntax tree", {})
                continue
            node, ps = _call_node(fn, c, key[2])
            if cls == G:
                recv = re.escape(A.render(A.peel(node["receiver"]))) if node is not None and A.kind(node) == "Expr::MethodCall" else r"[\w.#]+"
                rx = arg.replace("{recv}", recv)
                conds = conditions_at(fn, c["line"])
                if not any(re.search(rx, x) for x in conds):
                    ctx.report(f"ext-pre:guard-lost:{construct}", where, f"`{what}` in `{fnp}` is no longer made under its guard (conditions holding there: {conds[:6]}): {ents[0]['why']}", {})
            else:
                ok, why = _ext_structural(cls, fn, node, ps)
                if not ok:
                    ctx.report(f"ext-pre:{cls[2:]}:{construct}", where, f"`{what}` in `{fnp}`: {why} ({ents[0]['why']})", {})
    ctx.floor("calls into dependencies", n_calls, 4000)
    ctx.floor("calls with a precondition", n_hit, 12)


def rule_closed_sets(ctx):
    """CLOSED-SET: the `unimplemented!()` fall-backs of the fmt trait-name tables cannot be reached: every trait registered for `fmt::display` / `fmt::debug` in impl/src/lib.rs has an arm in `normalize_trait_name`, `trait_name_to_attribute_name` and `trait_name_to_default_placeholder_literal`; Parse impls that are `unreachable!()` belong to types whose `parse_attr_with` is overridden and never calls them."""
    table = CFG.derive_table(ctx)
    disp = sorted(tr for feat, mod, tr, _ in table if mod == "fmt::display")
    dbg = sorted(tr for feat, mod, tr, _ in table if mod == "fmt::debug")
    for rel, qual, need in (
        ("impl/src/fmt/display.rs", "normalize_trait_name", disp),
        ("impl/src/fmt/display.rs", "trait_name_to_default_placeholder_literal", disp),
        ("impl/src/fmt/mod.rs", "trait_name_to_attribute_name", disp + dbg),
    ):
        fn = A.get_fn(ctx.files, rel, qual)
        t = A.fn_text(fn)
        tab = A.string_table(fn)
        for tr in need:
            ctx.instance(f"{qual}:{tr}")
            if (tr not in tab) if tab is not None else (f'"{tr}"' not in t):
                ctx.report(f"closed-set:{qual}:{tr}", ctx.where(fn.file, fn.node), f"`{qual}` has no arm for the registered derive `{tr}`: deriving it reaches `unimplemented!()`", {})
    for rel, ty in (("impl/src/into.rs", "FieldAttribute"), ("impl/src/utils.rs", "ReprInt")):
        fns = [fn for fn in A.functions(ctx.files[rel]) if fn.self_ty == ty and fn.name == "parse_attr_with"]
        ctx.instance(f"parse-unreachable:{ty}")
        if len(fns) != 1 or re.search(r"\bparser\.parse\b|Self::parse\(|<Self as Parse>", A.fn_text(fns[0])):
            ctx.report(f"closed-set:parse:{ty}", rel, f"`{ty}`'s `Parse::parse` is `unreachable!()` but `parse_attr_with` is no longer an override that avoids it", {})
    # validate_type: one type per field
    vt = A.get_fn(ctx.files, "impl/src/utils.rs", "fields_ext::FieldsExt::validate_type")
    t = A.fn_text(vt)
    ctx.instance("validate_type:one-type-per-field")
    # the arity check and the result are decided on the same value: every `match` with a `Type::Tuple` arm scrutinises
    # the same expression (aliases inlined)
    al = {n: A.render(e) for n, (e, st, interp) in A.aliases(vt).items()}
    scr = set()
    for mt, _ in A.find(vt.block, "Expr::Match"):
        if any("Type::Tuple" in A.render_pat(a["pat"]) for a in mt["arms"]):
            r = A.render(A.peel(mt["expr"]))
            scr.add(al.get(r, r))
    ctx.instance("validate_type:same-scrutinee", sample={"scrutinees": sorted(scr)})
    if len(scr) != 1:
        ctx.report("closed-set:validate_type:scrutinee", ctx.where(vt.file, vt.node), f"`validate_type` checks the tuple arity on one value and builds its result from another ({sorted(scr)}): a type the first accepts as an N-tuple (through parentheses / an invisible group) is returned as ONE type, and `from.rs` reaches `unreachable!()` when it asks for the type of the second field", {})
    # a tuple is unpacked into one type per field only where its arity is known to fit: under the `Equal` arm of the arity
    # comparison, under `elems.len() == 1` (a single field given a 1-tuple), or under `self.len() > 1` *after* both
    # mismatching arities were refused; everything else is returned whole (`Either::Right(iter::once(..))`)
    from . import reject as RJ
    from .. import guardf as GF

    lefts = [(c_, ps_) for c_, ps_ in A.find(vt.block, "Expr::Call") if A.path_str(c_["func"]) == "Either::Left" and "elems" in A.render(c_)]
    # both mismatching arities are refused: the `Less` and the `Greater` arm of the arity comparison end in an error
    # (whatever they compute for the message first)
    def _arm_refuses(which):
        for mt_, _ in A.find(vt.block, "Expr::Match"):
            if ".cmp(" not in A.render(mt_["expr"]):
                continue
            for arm_ in mt_["arms"]:
                if A.render_pat(arm_["pat"]).endswith("Ordering::" + which):
                    b_ = A.render(arm_["body"])
                    if "return Err(" in b_ or b_.lstrip("{").startswith("Err("):
                        return True
        return False

    refused_both = _arm_refuses("Less") and _arm_refuses("Greater")
    bad = []
    for c_, ps_ in lefts:
        ft = GF.canon_text(RJ.site_formula(vt, c_, ps_))
        if "Equal" in ft or re.search(r"elems\.len\(\)(==| ~ )1\b", ft) or (("1<self.len()" in ft or "self.len()>1" in ft) and refused_both):
            continue
        bad.append(ft)
    if not lefts or bad or not re.search(r"Either::Right\(iter::once\(\w+\)\)", t) or not refused_both:
        ctx.report("closed-set:validate_type", ctx.where(vt.file, vt.node), f"`validate_type` no longer yields exactly one type per field (tuples are unpacked only when their arity was validated / is 1; unpacking sites without such a condition: {bad}): `from.rs` reaches `unreachable!()` for `#[from(())]`", {"text": t[-400:]})


def rule_termination(ctx):
    """TERM: every function of the crate that can reach itself in rustc's resolved call graph recurses on a strict sub-term of its argument (a field of the matched syntax node) or under an explicit depth guard."""
    m = ctx.mir
    g = m.call_graph()
    # Tarjan SCCs
    index = {}
    low = {}
    stack = []
    on = set()
    sccs = []
    counter = [0]

    def strong(v):
        work = [(v, iter(sorted(g.get(v, ()))))]
        index[v] = low[v] = counter[0]
        counter[0] += 1
        stack.append(v)
        on.add(v)
        while work:
            node, it = work[-1]
            adv = False
            for w in it:
                if w not in index:
                    index[w] = low[w] = counter[0]
                    counter[0] += 1
                    stack.append(w)
                    on.add(w)
                    work.append((w, iter(sorted(g.get(w, ())))))
                    adv = True
                    break
                elif w in on:
                    low[node] = min(low[node], index[w])
            if adv:
                continue
            work.pop()
            if work:
                low[work[-1][0]] = min(low[work[-1][0]], low[node])
            if low[node] == index[node]:
                comp = []
                while True:
                    w = stack.pop()
                    on.discard(w)
                    comp.append(w)
                    if w == node:
                        break
                sccs.append(comp)

    for v in sorted(g):
        if v not in index:
            strong(v)
    rec = [c for c in sccs if len(c) > 1 or c[0] in g.get(c[0], ())]
    # recursion guarded otherwise than by structural descent (one reason each)
    DEPTH_GUARDED = {
        "utils::parse_punctuated_nested_meta": "recursion passes `Some(name)` as wrapper; a nested `not`/list under a wrapper is rejected or parsed one level deeper only (depth <= 3)",
    }
    for comp in rec:
        names = {re.sub(r"<[^<>]*>", "", p).split("::")[-1] for p in comp}
        for fnp in sorted(comp):
            ctx.instance(f"recursive:{fnp}", sample={"fn": fnp, "scc": sorted(comp)})
            if fnp.startswith("<") and "as std::fmt::Debug>" in fnp:
                continue
            if fnp in DEPTH_GUARDED:
                continue
            verdict = _structural_descent(ctx, fnp, names)
            if verdict is not True:
                ctx.report(
                    f"term:{fnp}",
                    fnp,
                    f"`{fnp}` is (mutually) recursive ({sorted(comp)}) and {verdict}: unbounded recursion overflows the compiler's stack",
                    {},
                )
    ctx.note(f"{len(rec)} recursive components: {[sorted(c) for c in rec]}")
    # loops of the two hand-written parsers are covered by G-COMB / G-TAB (progress) and SPLIT-TAB (scanner)


def _strip(e):
    while A.kind(e) in ("Expr::Reference", "Expr::Paren", "Expr::Group") or (A.kind(e) == "Expr::Unary" and A.kind(e.get("op")) == "UnOp::Deref"):
        e = e["expr"]
    return e


def _decreasing(fn, e, depth=0):
    """is `e` a strict sub-term of something the function received (a projection of, or a variable bound by destructuring / iterating, a parameter)?"""
    from .. import types as TY

    e = _strip(e)
    k = A.kind(e)
    if k == "Expr::Field":
        return True
    if k == "Expr::MethodCall":
        if e["method"]["sym"] in ("stream", "as_ref", "as_deref", "as_mut", "iter", "clone", "deref"):
            r = _strip(e["receiver"])
            if A.kind(r) == "Expr::Field":
                return True
            if A.kind(r) == "Expr::Path":
                return _decreasing(fn, r, depth) or _is_pattern_var(fn, r)
        return False
    if k == "Expr::Path":
        nm = A.path_str(e)
        if nm is None or "::" in nm:
            return False
        off = A.span_of(e)[0]
        b = TY.resolve(fn, nm, off)
        if b is None:
            return False
        if b["kind"] == "param":
            return False
        if b["kind"] == "let":
            return depth < 4 and b.get("init") is not None and _decreasing(fn, b["init"], depth + 1)
        # arm / iflet / closure / for: bound by a pattern over (part of) the input
        if b["kind"] in ("arm", "iflet"):
            return A.kind(b["pat"]) != "Pat::Ident" or True
        return True
    return False


def _is_pattern_var(fn, e):
    from .. import types as TY

    nm = A.path_str(e)
    b = TY.resolve(fn, nm, A.span_of(e)[0]) if nm and "::" not in nm else None
    return b is not None and b["kind"] in ("arm", "iflet", "closure", "for")


def _structural_descent(ctx, fnp, names):
    """True when every call from the function(s) named like `fnp` into its recursive component hands over a strict sub-term; else a reason"""
    last = re.sub(r"<[^<>]*>", "", fnp).split("::")[-1]
    cands = []
    for rel, f in ctx.files.items():
        if rel.startswith("impl/src/"):
            cands += [fn for fn in A.functions(f) if fn.name == last and fn.block is not None]
    if not cands:
        return f"its source was not found under the name `{last}`"
    for fn in cands:
        for x, ps in A.walk(fn.block):
            k = A.kind(x)
            args = None
            if k == "Expr::Call" and A.kind(x["func"]) == "Expr::Path" and A.path_str(x["func"]).split("::")[-1] in names:
                args = list(x["args"])
            elif k == "Expr::MethodCall" and x["method"]["sym"] in names:
                args = [x["receiver"]] + list(x["args"])
            if args is None:
                continue
            if not any(_decreasing(fn, a) for a in args):
                return f"its call `{A.render(x)[:80]}` (line {fn.file.line(A.span_of(x)[0])}) passes no strict sub-term of its own input"
    return True


def _adjacent_splices(toks):
    """(text, position) of places where two spliced sequences meet with no literal token between them inside a token list:
    `#a #b`, `#a #( .. ),*`, `#( .. )* #b`"""
    out = []
    n = len(toks)

    def splice_end(i):
        """index just after the splice starting at toks[i] (`#x` or `#( .. ) sep? *`), or None"""
        if not (A.kind(toks[i]) == "Punct" and A.punct_char(toks[i]) == "#" and i + 1 < n):
            return None
        nx = toks[i + 1]
        if A.kind(nx) == "Ident":
            return i + 2
        if A.kind(nx) == "Group" and nx["delimiter"] == "Parenthesis":
            j = i + 2
            if j < n and A.kind(toks[j]) == "Punct" and A.punct_char(toks[j]) == "*":
                return j + 1
            if j + 1 < n and A.kind(toks[j]) == "Punct" and A.kind(toks[j + 1]) == "Punct" and A.punct_char(toks[j + 1]) == "*":
                return j + 2
        return None

    i = 0
    while i < n:
        e = splice_end(i)
        if e is not None:
            if e < n and splice_end(e) is not None:
                out.append((A.tokens_text(toks[i : splice_end(e)]), toks[i]))
            i = e
            continue
        if A.kind(toks[i]) == "Group":
            out.extend(_adjacent_splices(toks[i]["stream"]))
        i += 1
    return out


def rule_parse_quote_shape(ctx):
    """PARSE-QUOTE: `parse_quote!` panics when its tokens do not parse, so what it is given must parse for *every* value of the spliced parts: no two spliced sequences stand next to each other without a literal token between them (`#clause #( #bounds ),*`) - whether their concatenation parses then depends on how the first one happens to end (a user's `where T: Clone` has no trailing comma: 'proc-macro derive panicked'). Each splice is delimited by literal punctuation (`#ty: ..::#trait_ident`, `&(#expr)`) or stands alone (a value re-parsed as a whole)."""
    n = 0
    for rel, f in sorted(ctx.files.items()):
        if not rel.startswith("impl/src/"):
            continue
        for fn in A.functions(f):
            if fn.block is None:
                continue
            for mac, _ in A.macros(fn.block, ("parse_quote", "parse_quote_spanned")):
                n += 1
                key = f"{rel}::{fn.qual}"
                ctx.instance(f"parse-quote:{key}:{A.tokens_text(mac['tokens'])[:50]}")
                for txt, tok in _adjacent_splices(mac["tokens"]):
                    ctx.report(f"parse-quote:{key}:{txt[:40]}", ctx.where(f, tok), f"`parse_quote!` in `{fn.qual}` splices `{txt}` back to back: whether the result parses depends on how the first spliced part ends (e.g. a where-clause with or without a trailing comma), and `parse_quote!` panics when it does not - append to the parsed value (`predicates.extend(..)`) or separate the parts by literal tokens", {})
    ctx.floor("parse_quote! sites", n, 14)


def _tail_of(stmts):
    """the value a block yields: its last statement as an expression (a trailing `quote! {..}` is a Stmt::Macro)"""
    if not stmts:
        return None
    last = stmts[-1]
    if A.kind(last) == "Stmt::Expr" and last.get("1") is None:
        return last["0"]
    if A.kind(last) == "Stmt::Expr":
        return last["0"]
    if A.kind(last) == "Stmt::Macro":
        return {"_": "Expr::Macro", "attrs": [], "mac": last["mac"]}
    return None


def _where_arg_values(files, fn, e, depth=0):
    """leaf values an expression handed to `add_extra_where_clauses` can take: [(kind, text, node, fn)] with kind in
    'where-template' | 'other' ; follows `if`/`match` branches, local bindings and parameters (to every call site)"""
    e = A.peel(e)
    k = A.kind(e)
    if depth > 9:
        return [("other", A.render(e)[:60], e, fn)]
    if k == "Expr::Macro" and A.path_last(e["mac"]["path"]) in ("quote", "quote_spanned"):
        toks = e["mac"]["tokens"]
        first = toks[0] if toks else None
        ok = first is not None and A.kind(first) == "Ident" and first["sym"] == "where"
        return [("where-template" if ok else "other", A.tokens_text(toks)[:60], e, fn)]
    if k == "Expr::If":
        out = []
        tb = _tail_of(e["then_branch"]["stmts"])
        if tb is not None:
            out += _where_arg_values(files, fn, tb, depth + 1)
        eb = e.get("else_branch")
        eb = eb[1] if isinstance(eb, list) else eb
        if eb is not None:
            out += _where_arg_values(files, fn, eb, depth + 1)
        return out or [("other", A.render(e)[:60], e, fn)]
    if k == "Expr::Block" and _tail_of(e["block"]["stmts"]) is not None:
        return _where_arg_values(files, fn, _tail_of(e["block"]["stmts"]), depth + 1)
    if k == "Expr::Match":
        out = []
        for arm in e["arms"]:
            out += _where_arg_values(files, fn, arm["body"], depth + 1)
        return out
    if k == "Expr::MethodCall" and e["method"]["sym"] in ("clone", "to_token_stream", "into_token_stream"):
        return _where_arg_values(files, fn, e["receiver"], depth + 1)
    if k in ("Expr::Call", "Expr::MethodCall"):
        # a helper of the same file that builds the clause: what its body yields
        nm_ = (A.path_last(e["func"]) if A.kind(e["func"]) == "Expr::Path" else None) if k == "Expr::Call" else e["method"]["sym"]
        hs = [g for g in A.functions(fn.file) if g.name == nm_ and g.block is not None and g is not fn]
        if len(hs) == 1 and _tail_of(hs[0].block["stmts"]) is not None:
            return _where_arg_values(files, hs[0], _tail_of(hs[0].block["stmts"]), depth + 1)
    if k == "Expr::Path" and "::" not in (A.path_str(e) or "::"):
        nm = A.path_str(e)
        b = TY.resolve(fn, nm, (A.span_of(e) or [0])[0])
        if b is not None and b.get("init") is not None:
            return _where_arg_values(files, fn, b["init"], depth + 1)
        if b is not None and b["kind"] == "param":
            prm = [A.pat_idents(p_["0"]["pat"]) for p_ in fn.node["sig"]["inputs"] if A.kind(p_) == "FnArg::Typed"]
            pos = next((i for i, ns in enumerate(prm) if ns == [nm]), None)
            out = []
            if pos is not None:
                for rel, f in files.items():
                    if not rel.startswith("impl/src/"):
                        continue
                    for g in A.functions(f):
                        if g.block is None:
                            continue
                        for c, _ in A.find(g.block, "Expr::Call"):
                            if A.kind(c["func"]) == "Expr::Path" and A.path_last(c["func"]) == fn.name and pos < len(c["args"]):
                                out += _where_arg_values(files, g, c["args"][pos], depth + 1)
            if out:
                return out
    return [("other", A.render(e)[:60], e, fn)]


def rule_where_clause_args(ctx):
    """WHERE-ARG: `add_extra_where_clauses(generics, tokens)` re-parses `tokens` as a `syn::WhereClause` (`parse_quote!`, which panics when that fails), so every value that can reach the parameter - through locals, `if`/`match` branches and forwarding helpers - is a template that starts with the `where` keyword (an empty list after it is fine: `where` alone parses). `TokenStream::new()` for 'nothing to bound' makes a Mul-like derive on a field-less struct panic."""
    n = 0
    for rel, f in sorted(ctx.files.items()):
        if not rel.startswith("impl/src/"):
            continue
        for fn in A.functions(f):
            if fn.block is None:
                continue
            for c, _ in A.find(fn.block, "Expr::Call"):
                if A.kind(c["func"]) != "Expr::Path" or A.path_last(c["func"]) != "add_extra_where_clauses" or len(c["args"]) != 2:
                    continue
                vals = _where_arg_values(ctx.files, fn, c["args"][1])
                n += 1
                key = f"{rel}::{fn.qual}:{A.render(c['args'][1])[:30]}"
                ctx.instance(f"where-arg:{key}", sample={"call in": f"{rel}::{fn.qual}", "values": [(k_, t_) for k_, t_, _, _ in vals][:6]})
                for k_, t_, node, g in vals:
                    if k_ != "where-template":
                        ctx.report(f"where-arg:{key}:{t_[:30]}", ctx.where(g.file, node), f"`add_extra_where_clauses` in `{fn.qual}` can receive `{t_}` (from `{g.qual}`), which is not a `where ..` template: the helper re-parses its argument as a `WhereClause` with `parse_quote!` and panics ('expected `where`') - the derive aborts instead of expanding", {})
    ctx.floor("add_extra_where_clauses call sites", n, 6)
