"""C17 - synonymous attribute spellings are equivalent; contradictory ones rejected (ATTR-TOTAL)."""
import re

from .. import ast as A

UTILS = "impl/src/utils.rs"


def _pat_alternatives(p):
    """rendered alternatives of a pattern, or-patterns expanded also inside tuples: `(None | Some("not"), "x")` ->
    [`(None,"x")`, `(Some("not"),"x")`]"""
    k = A.kind(p)
    if k == "Pat::Or":
        out = []
        for c in p["cases"]:
            out += _pat_alternatives(c)
        return out
    if k == "Pat::Paren":
        return _pat_alternatives(p["pat"])
    if k == "Pat::Tuple":
        alts = [[]]
        for e in p["elems"]:
            alts = [a + [x] for a in alts for x in _pat_alternatives(e)]
        return ["(" + ",".join(a) + ")" for a in alts]
    return [A.render_pat(p)]


def rule_legacy_attr_parser(ctx):
    """ATTR-LEGACY: the untyped attribute parser (`get_meta_info` / `parse_punctuated_nested_meta`, used by 16 derives) rejects: an attribute where none is allowed, a second attribute of the same name *before* any successful return, an empty attribute unless `ignore` is allowed, name-value syntax, parameters outside the allow-list, and parameter names it has no meaning for (both matches on `(wrapper, name)` end in a rejecting arm); nested `not(..)` is bounded."""
    fn = A.get_fn(ctx.files, UTILS, "get_meta_info")
    f = fn.file
    w = ctx.where(f, fn.node)
    stmts = [A.render_stmt(s) for s in fn.block["stmts"]]
    ctx.note(f"get_meta_info: {len(stmts)} statements")

    def idx(pred):
        return next((i for i, s in enumerate(stmts) if pred(s)), None)

    def starts(s_, pat):
        m_ = A.wsearch(s_, pat)
        return m_ is not None and m_.start() == 0

    i_first = idx(lambda s_: starts(s_, "let Some(attr)=it.next() else"))
    i_allowed = idx(lambda s_: starts(s_, "if allowed_attr_params.is_empty(){return Err("))
    i_second = idx(lambda s_: starts(s_, "if let Some(another_attr)=it.next(){return Err("))
    i_match = idx(lambda s_: starts(s_, "let list=match &attr.meta{"))
    i_parse = idx(lambda s_: starts(s_, "parse_punctuated_nested_meta(&mut info,&list.parse_args_with(Punctuated::parse_terminated)?,allowed_attr_params,None)?"))
    ctx.instance("get_meta_info:order", sample={"first": i_first, "not_allowed": i_allowed, "second": i_second, "match": i_match, "parse": i_parse})
    if None in (i_first, i_allowed, i_second, i_match, i_parse):
        raise A.AnchorLost(f"{UTILS}::get_meta_info", f"statement anchors {(i_first, i_allowed, i_second, i_match, i_parse)}")
    if not (i_first < i_allowed < i_match and i_first < i_second < i_match < i_parse):
        ctx.report(
            "legacy:duplicate-check-order",
            w,
            "the 'Only a single attribute is allowed' check no longer precedes the match on the attribute's form: the bare form (`#[attr]`) returns early, so a later contradictory attribute on the same item "
            "(`#[deref] #[deref(ignore)]`, `#[deref] #[deref(forward)]`) is silently ignored",
            {"stmts": [s[:60] for s in stmts]},
        )
    # the bare marker `#[attr]` says nothing but 'this item takes part': `get_meta_info` itself writes no flag of the
    # result other than `enabled` (every other slot is written by the parameter that names it, in the nested parser) -
    # a stray `info.forward = Some(false)` here overrides the container's `#[attr(forward)]` for that field
    stray = []
    for asg, _ in A.find(fn.block, "Expr::Assign"):
        l = A.peel(asg["left"])
        if A.kind(l) == "Expr::Field" and A.kind(l["member"]) == "Member::Named" and A.render(l["base"]) == "info" and l["member"]["0"]["sym"] != "enabled":
            stray.append(A.render(asg))
    for mc_, _ in A.find(fn.block, "Expr::MethodCall"):
        r_ = A.render(mc_["receiver"])
        if mc_["method"]["sym"] in ("insert", "replace", "get_or_insert", "get_or_insert_with", "take") and re.fullmatch(r"info\.(\w+)", r_) and not r_.endswith(".enabled"):
            stray.append(A.render(mc_)[:60])
    for lit_, _ in A.find(fn.block, "Expr::Struct"):
        if A.path_last(lit_["path"]) == "MetaInfo":
            for fv in lit_["fields"]:
                nm_ = fv["member"]["0"]["sym"] if A.kind(fv["member"]) == "Member::Named" else None
                if nm_ not in (None, "enabled") and A.render(fv["expr"]) not in ("None",):
                    stray.append(f"{nm_}: {A.render(fv['expr'])[:40]}")
    ctx.instance("get_meta_info:only-enabled-written", sample={"stray writes": stray})
    if stray:
        ctx.report("legacy:stray-flag-write", w, f"`get_meta_info` writes a flag the attribute did not name ({stray[0]}): a bare `#[attr]` marker (or any attribute) then carries a setting of its own that overrides what the container's attribute says (`#[deref(forward)] struct S(#[deref] Box<i32>)` stops forwarding)", {})
    # (how the empty `#[attr]` and the name-value form are refused is REJECT-LEDGER's subject: rows of get_meta_info)
    pn = A.get_fn(ctx.files, UTILS, "parse_punctuated_nested_meta")
    w = ctx.where(f, pn.node)
    t = A.fn_text(pn)
    ctx.instance("nested:allow-list")
    if len(A.wild("if !allowed_attr_params.iter().any(|param|path.is_ident(param)){return Err(").findall(t)) != 2:
        ctx.report("legacy:allow-list", w, "parameters are no longer checked against the position's allow-list in both the `name(..)` and the bare `name` form", {})
    matches = [m_ for m_, _ in A.find(pn.block, "Expr::Match") if re.fullmatch(r"\(\w+,\w+\.as_str\(\)\)", A.render(m_["expr"]))]
    ctx.instance("nested:matches", sample=len(matches))
    if len(matches) != 2:
        raise A.AnchorLost(f"{UTILS}::parse_punctuated_nested_meta", f"{len(matches)} matches on (wrapper_name, attr_name)")
    slots = {}
    for m_ in matches:
        last = m_["arms"][-1]
        ctx.instance("nested:reject-arm")
        if A.render_pat(last["pat"]) != "_" or not A.render(A.unblock(last["body"])).startswith("return Err("):
            ctx.report("legacy:no-reject-arm", ctx.where(f, last["pat"]), "a match on the parameter name no longer ends in a rejecting `_ => return Err(..)` arm: unknown or misplaced parameters are silently ignored", {})
        for arm in m_["arms"][:-1]:
            b = A.render(A.unblock(arm["body"]))
            mm = re.fullmatch(r"info\.(\w+)=Some\((true|false)\)", b)
            guarded = False
            if not mm:
                mm = re.fullmatch(r"set_once\(&mut info\.(\w+),(true|false),path\)\?", b)
                guarded = bool(mm)
            if not mm:
                mm = re.fullmatch(r"\{if info\.(\w+)==Some\((?:true|false)\)\{return Err\([^;]*\)\};info\.\1=Some\((true|false)\)\}", b)
                guarded = bool(mm)
            if mm:
                for p in _pat_alternatives(arm["pat"]):
                    slots.setdefault(mm.group(1), []).append((p, mm.group(2), guarded))
            else:
                # an arm for a *flag* parameter that records nothing: `not(x)` is not 'the default anyway' - it is what
                # overrides an inherited `x` (struct-level `forward`, a field named `source`)
                for p in _pat_alternatives(arm["pat"]):
                    mp_ = re.fullmatch(r'\((None|Some\("not"\)),"(\w+)"\)', p)
                    if mp_ and mp_.group(2) != "types":
                        ctx.instance(f"nested:arm-writes:{p}")
                        ctx.report(
                            f"legacy:arm-no-write:{p}",
                            ctx.where(f, arm["pat"]),
                            f"the arm {p} of the legacy attribute parser does not store the flag (`{b[:80]}`): the parameter is accepted and then forgotten - a field-level `not(forward)` no longer overrides a container-level "
                            "`forward` (Deref's `Target` becomes the inner type's), `not(source)` no longer removes the field named `source` from the candidates",
                            {},
                        )
    # the recursion hands the *name of the list it just matched* down as the wrapper: that is what makes `not(source)` mean
    # (Some("not"), "source") and `ref(T)` record T under the `ref` kind only
    recs = [(c, cps_) for c, cps_ in A.find(pn.block, "Expr::Call") if A.path_str(c["func"]) == pn.name]
    ctx.instance("nested:recursion", sample=len(recs))
    if not recs:
        raise A.AnchorLost(f"{UTILS}::parse_punctuated_nested_meta", "no recursive call")
    params = [A.pat_idents(p_["0"]["pat"]) for p_ in pn.node["sig"]["inputs"] if A.kind(p_) == "FnArg::Typed"]
    # the wrapper is the one `Option<&str>` parameter, whatever it is called
    typed = [p_ for p_ in pn.node["sig"]["inputs"] if A.kind(p_) == "FnArg::Typed"]
    wcand = [i for i, p_ in enumerate(typed) if re.fullmatch(r"Option<&(?:'\w+)?str>?", A.expr_text(f, p_["0"]["ty"]).replace(" ", ""))]
    if len(wcand) != 1 or len(params[wcand[0]]) != 1:
        raise A.AnchorLost(f"{UTILS}::parse_punctuated_nested_meta", "no single `Option<&str>` wrapper parameter")
    wpos = wcand[0]
    wname = params[wpos][0]
    from .. import types as TY

    for c, cps in recs:
        a = A.peel(c["args"][wpos]) if wpos < len(c["args"]) else None
        ok = False
        if a is not None and A.kind(a) == "Expr::Call" and A.path_str(a["func"]) == "Some" and len(a["args"]) == 1:
            inner = A.peel(a["args"][0])
            while A.kind(inner) in ("Expr::Reference", "Expr::Paren", "Expr::Group"):
                inner = inner["expr"]
            src = inner
            if A.kind(inner) == "Expr::Path" and "::" not in (A.path_str(inner) or "::"):
                b = TY.resolve(pn, A.path_str(inner), (A.span_of(inner) or [0])[0])
                if b is not None and b.get("init") is not None:
                    src = b["init"]
            rs = A.render(src)
            ok = ("path" in rs or "list" in rs) and wname not in rs
            if A.kind(src) == "Expr::Lit":
                # a literal name is right under an arm guarded by `is_ident(<that literal>)`
                arm = next((x for x in reversed(cps) if A.kind(x) == "Arm"), None)
                ok = arm is not None and arm.get("guard") is not None and f"is_ident({rs})" in A.render(arm["guard"][1] if isinstance(arm["guard"], list) else arm["guard"])
        if not ok:
            ctx.report("legacy:wrapper-propagation", ctx.where(f, c), f"the recursive call passes `{A.render(c['args'][wpos]) if wpos < len(c['args']) else '?'}` as wrapper instead of `Some(<name of the list just matched>)`: inside `not(..)` / `ref(..)` the parameters are then read as if written at top level (`not(source)` selects the field, `not(forward)` forwards, `ref(T)` records T for every reference kind)", {})
    ctx.instance("nested:not-depth")
    if A.wsearch(t, 'polyfill::Meta::List(list) if list.path.is_ident("not")=>{if wrapper_name.is_some(){return Err(') is None:
        ctx.report("legacy:nested-not", w, "nested / repeated `not(..)` is no longer rejected (unbounded recursion on the attribute's nesting)", {})
    # slot overwrite: `info.X = Some(v)` without a test of info.X accepts duplicates and contradictions
    so = [g for g in A.functions(f) if g.name == "set_once"]
    # OPT-ALG: `set_once` evaluated on an empty and an occupied slot: fills the empty one and succeeds, fails on the other
    set_once_ok = False
    if len(so) == 1:
        from .. import optalg as O

        prm = [A.pat_idents(p_["0"]["pat"]) for p_ in so[0].node["sig"]["inputs"] if A.kind(p_) == "FnArg::Typed"]
        if prm and len(prm[0]) == 1:
            sl = prm[0][0]
            res = []
            for start in (O.NONE, O.some("old")):
                env_, out = O.run_fn_body(so[0].block["stmts"], {sl: start})
                val = out[1]
                res.append((env_.get(sl) != O.NONE, val == ("Err",) or (isinstance(val, tuple) and val[:1] == ("Err",))))
            set_once_ok = res == [(True, False), (True, True)]
    # polarity and slot of every parameter: `name` switches its own flag on, `not(name)` switches it off
    # (`ignore` is the one negative word: it switches `enabled` off)
    for slot, writes in sorted(slots.items()):
        for p, v, _g in writes:
            mp = re.fullmatch(r'\((None|Some\("not"\)),"(\w+)"\)', p)
            if not mp:
                continue
            neg, name = mp.group(1) != "None", mp.group(2)
            ctx.instance(f"polarity:{p}", sample={"pattern": p, "slot": slot, "value": v})
            want_slot = {"ignore": "enabled", "skip": "enabled"}.get(name, name)
            want_val = (name not in ("ignore", "skip")) != neg
            if slot.rstrip("_") != want_slot.rstrip("_"):
                ctx.report(f"legacy:slot-of:{p}", w, f"the parameter {p} writes `info.{slot}`, not the flag of its own name: `#[attr({name})]` configures something else than documented", {})
            elif (v == "true") != want_val:
                ctx.report(f"legacy:polarity:{p}", w, f"the parameter {p} sets `info.{slot}` to {v}: `{'not(' + name + ')' if neg else name}` must switch the flag {'off' if neg else 'on'} (e.g. `#[mul(not(forward))]` would forward, `#[error(not(source))]` would select the field)", {})
    for slot, writes in sorted(slots.items()):
        unguarded = [(p, v) for p, v, g in writes if not g or (g and not set_once_ok and "set_once" in t)]
        ctx.instance(f"slot:{slot}", sample={"slot": slot, "writes": [(p, v) for p, v, _ in writes], "unguarded": len(unguarded)})
        if unguarded:
            vals = sorted({v for _, v, _ in writes})
            contradiction = len(vals) > 1
            writes = unguarded
            ctx.report(
                f"legacy:slot-overwrite:{slot}",
                w,
                f"`info.{slot}` is assigned by {[p for p, _ in writes]} without checking whether it was already set: a duplicated"
                + (" or contradicting (`x, not(x)`)" if contradiction else "")
                + " parameter in one attribute is accepted and the last one wins instead of being a compile error",
                {},
            )


def rule_attr_validation_reach(ctx):
    """ATTR-REACH: the legacy attribute validator `get_meta_info` (the only place where unknown, duplicated and contradicting parameters of 16 derives are refused) is reached for the item, for every variant and for every field *unconditionally* - its reach condition contains nothing but the iteration itself. Skipping it for items that 'do not take part anyway' (fields of an `ignore`d variant) makes a mistyped or duplicated attribute there compile silently."""
    from . import reject as RJ
    from .. import guardf as GF

    n = 0
    for rel, f in sorted(ctx.files.items()):
        if not rel.startswith("impl/src/"):
            continue
        for fn in A.functions(f):
            if fn.block is None or fn.name == "get_meta_info":
                continue
            for c, ps in A.find(fn.block, "Expr::Call"):
                if A.kind(c["func"]) != "Expr::Path" or A.path_str(c["func"]).split("::")[-1] != "get_meta_info":
                    continue
                n += 1
                fm = RJ.site_formula(fn, c, ps)
                cond = GF.canon_text(fm)
                # one atom 'the iteration yields an element', whatever expression builds the iterated collection
                if isinstance(fm, tuple) and fm and fm[0] == "is" and len(fm) == 3 and fm[2] == "Some" and re.search(r"\.iter\(\)(\.map\(\|\$\|&?\$\.attrs\))?$", str(fm[1])):
                    cond = "true"
                ctx.instance(f"attr-reach:{rel}::{fn.qual}#{n}", sample={"site": f"{rel}::{fn.qual}", "reach condition": cond})
                if cond == "true" or (re.fullmatch(r"\$(\.\w+)*\.iter\(\)(\.map\(\|\$\|&?\$\.attrs\))? ~ Some", cond)):
                    continue
                ctx.report(
                    f"attr-reach:{rel}::{fn.qual}",
                    ctx.where(f, c),
                    f"`{fn.qual}` validates attributes with `get_meta_info` only under `{cond}`: on the other paths unknown, duplicated or contradicting parameters are never looked at - "
                    "`#[error(ignore)] A { #[error(sauce)] source: E }` compiles instead of being rejected",
                    {},
                )
    ctx.floor("get_meta_info call sites", n, 3)


# the positions in which each derive accepts each legacy parameter, as documented in impl/doc/*.md and audited on the
# pinned tree: (file, function) -> {position: parameters}
ATTR_POSITIONS = {
    ("impl/src/error.rs", "allowed_attr_params"): {"enum_": ["ignore"], "struct_": ["ignore"], "variant": ["ignore"], "field": ["ignore", "source", "backtrace"]},
    ("impl/src/is_variant.rs", "expand"): {"enum_": ["ignore"], "struct_": ["ignore"], "variant": ["ignore"], "field": ["ignore"]},
    ("impl/src/mul_assign_like.rs", "expand"): {"enum_": [], "struct_": ["forward"], "variant": [], "field": []},
    ("impl/src/mul_like.rs", "expand"): {"enum_": [], "struct_": ["forward"], "variant": [], "field": []},
    ("impl/src/try_into.rs", "expand"): {"enum_": ["ignore", "owned", "ref", "ref_mut"], "struct_": ["ignore", "owned", "ref", "ref_mut"], "variant": ["ignore", "owned", "ref", "ref_mut"], "field": ["ignore"]},
    ("impl/src/try_unwrap.rs", "expand"): {"enum_": ["ignore", "owned", "ref", "ref_mut"], "struct_": ["ignore"], "variant": ["ignore", "owned", "ref", "ref_mut"], "field": ["ignore"]},
    ("impl/src/unwrap.rs", "expand"): {"enum_": ["ignore", "owned", "ref", "ref_mut"], "struct_": ["ignore"], "variant": ["ignore", "owned", "ref", "ref_mut"], "field": ["ignore"]},
    ("impl/src/utils.rs", "State::new"): {"enum_": [], "struct_": [], "variant": [], "field": []},
    ("impl/src/utils.rs", "State::with_field_ignore"): {"enum_": ["ignore"], "struct_": ["ignore"], "variant": ["ignore"], "field": ["ignore"]},
    ("impl/src/utils.rs", "State::with_field_ignore_and_forward"): {"enum_": ["ignore", "forward"], "struct_": ["ignore", "forward"], "variant": ["ignore", "forward"], "field": ["ignore", "forward"]},
    ("impl/src/utils.rs", "State::with_field_ignore_and_refs"): {"enum_": ["ignore", "owned", "ref", "ref_mut"], "struct_": ["ignore", "owned", "ref", "ref_mut"], "variant": ["ignore", "owned", "ref", "ref_mut"], "field": ["ignore", "owned", "ref", "ref_mut"]},
}
POSITIONS = ("enum_", "struct_", "variant", "field")


def _vec_strs(e):
    e = A.peel(e)
    if A.kind(e) == "Expr::Macro" and A.path_last(e["mac"]["path"] if "mac" in e else e["path"]) == "vec":
        return re.findall(r'"([^"]*)"', A.render(e))
    r = A.render(e)
    if re.fullmatch(r"vec!\(.*\)|vec!\[.*\]", r):
        return re.findall(r'"([^"]*)"', r)
    return None


def rule_legacy_positions(ctx):
    """ATTR-POS: for every derive built on the legacy attribute parser, the parameters accepted at each position (enum, struct, variant, field) are the documented ones: the `AttrParams` each expander constructs - through `AttrParams::new` (all four positions), `AttrParams::struct_` (the struct position only), `AttrParams::default()` (none) or a literal - is evaluated through the constructors' own definitions and compared with the audited table. `AttrParams::new(vec!["forward"])` for `AttrParams::struct_(..)` in mul_like makes `struct W(#[mul(forward)] i32)` compile with the attribute silently ignored (and disagree with MulAssign)."""
    uf = ctx.files[UTILS]
    # the constructors' own meaning, read from their bodies
    ctors = {}
    for g in A.functions(uf):
        if g.qual in ("AttrParams::new", "AttrParams::struct_") and g.block is not None:
            lit = next((x for x, _ in A.find(g.block, "Expr::Struct") if A.path_last(x["path"]) == "AttrParams"), None)
            prm = [A.pat_idents(p_["0"]["pat"]) for p_ in g.node["sig"]["inputs"] if A.kind(p_) == "FnArg::Typed"]
            if lit is None or len(prm) != 1 or len(prm[0]) != 1:
                raise A.AnchorLost(f"{UTILS}::{g.qual}", "one parameter and an AttrParams literal")
            pn = prm[0][0]
            m = {}
            for fv in lit["fields"]:
                nm = fv["member"]["0"]["sym"]
                r = A.render(fv["expr"])
                m[nm] = "param" if r in (pn, pn + ".clone()") else ([] if _vec_strs(fv["expr"]) == [] or r in ("vec!()", "Vec::new()") else None)
            ctors[g.qual.split("::")[1]] = m
    if set(ctors) != {"new", "struct_"} or any(set(m) != set(POSITIONS) or None in m.values() for m in ctors.values()):
        raise A.AnchorLost(f"{UTILS}::AttrParams", f"constructors not understood: {ctors}")
    seen = set()
    for rel, f in sorted(ctx.files.items()):
        if not rel.startswith("impl/src/"):
            continue
        for fn in A.functions(f):
            if fn.block is None or fn.qual in ("AttrParams::new", "AttrParams::struct_"):
                continue
            got = None
            for c, _ in A.find(fn.block, "Expr::Call"):
                p_ = A.path_str(c["func"]) if A.kind(c["func"]) == "Expr::Path" else ""
                if p_ and p_.startswith("AttrParams::"):
                    k = p_.split("::")[1]
                    if k == "default":
                        got = {q: [] for q in POSITIONS}
                    elif k in ctors and c["args"]:
                        v = _vec_strs(c["args"][0])
                        got = {q: (v if ctors[k][q] == "param" else []) for q in POSITIONS} if v is not None else "?"
                    else:
                        got = "?"
            for s_, _ in A.find(fn.block, "Expr::Struct"):
                if A.path_last(s_["path"]) == "AttrParams":
                    got = {fv["member"]["0"]["sym"]: _vec_strs(fv["expr"]) for fv in s_["fields"]}
                    if None in got.values() or set(got) != set(POSITIONS):
                        got = "?"
            if got is None:
                continue
            key = (rel, fn.qual)
            seen.add(key)
            ctx.instance(f"attr-pos:{rel}::{fn.qual}", sample={"site": f"{rel}::{fn.qual}", "positions": got})
            want = ATTR_POSITIONS.get(key)
            if want is None:
                ctx.report(f"attr-pos:new-site:{rel}::{fn.qual}", ctx.where(f, fn.node), f"`{fn.qual}` builds an attribute allow-list that the audited table does not know: {got}", {})
            elif got == "?" or any(sorted(got[q]) != sorted(want[q]) for q in POSITIONS):
                diff = {q: (got[q] if got != "?" else "?", want[q]) for q in POSITIONS if got == "?" or sorted(got[q]) != sorted(want[q])}
                ctx.report(
                    f"attr-pos:{rel}::{fn.qual}",
                    ctx.where(f, fn.node),
                    f"`{fn.qual}` accepts other parameters per position than documented (position: now / documented): {diff} - an attribute is accepted where it has no effect (silently ignored) or refused where it is documented",
                    {},
                )
    missing = set(ATTR_POSITIONS) - seen
    if missing:
        raise A.AnchorLost("AttrParams sites", f"audited sites not found: {sorted(missing)}")


def _merge_overrides(ctx):
    out = []
    for rel, f in sorted(ctx.files.items()):
        if not rel.startswith("impl/src"):
            continue
        for fn in A.functions(f):
            if fn.name == "merge_attrs" and fn.trait_ and fn.trait_.endswith("ParseMultiple"):
                out.append(fn)
    return out


REJECTING = {"Empty", "Skip"}
MERGING = {
    "Types": "prev.item.0.extend(new.item.0)",
    "ConversionsAttribute": "prev.owned.tys.extend(new.owned.tys)",
}


def rule_typed_attrs(ctx):
    """ATTR-TYPED: repeated typed attributes are rejected unless their documentation allows merging: the default `ParseMultiple::merge_attrs` is an error, `Empty`/`Skip` override it with an error, `Types`/`ConversionsAttribute` concatenate in order, `Either` only merges values of the same kind, fmt container attributes reject a second literal / `rename_all` but accumulate `bound(..)`; `skip|ignore` and `bound|bounds|where` are accepted as synonyms and nothing branches on which spelling was used."""
    dflt = A.get_fn(ctx.files, UTILS, "attr::ParseMultiple::merge_attrs")
    ctx.instance("default-merge")
    if not A.fn_text(dflt).startswith("Err(syn::Error::new(new.span,format!(\"only single"):
        ctx.report("typed:default-merge", ctx.where(dflt.file, dflt.node), "the default `merge_attrs` no longer rejects a repeated attribute", {"body": A.fn_text(dflt)[:200]})
    ovs = _merge_overrides(ctx)
    seen = set()
    ovs = [fn for fn in ovs if fn.self_ty]
    for fn in ovs:
        ty = fn.self_ty.split("::")[-1]
        ty = re.sub(r"<.*", "", ty)
        seen.add(ty)
        t = A.fn_text(fn)
        ctx.instance(f"merge:{ty}", sample={"type": ty, "body": t[:120]})
        w = ctx.where(fn.file, fn.node)
        if ty in REJECTING and not t.startswith("Err(syn::Error::new(new.span,"):
            ctx.report(f"typed:merge:{ty}", w, f"`{ty}::merge_attrs` no longer rejects a second attribute (e.g. `#[from(skip)] #[from(ignore)]` is silently accepted)", {"body": t[:200]})
        merged_ok = ty in MERGING and MERGING[ty] in t
        if ty == "ConversionsAttribute" and not merged_ok:
            # through a helper of the part's type: `prev.owned.merge(new.owned)` with `fn merge(&mut self, other) { self.tys.extend(other.tys); .. }`
            for mc_, _ in A.find(fn.block, "Expr::MethodCall"):
                if A.render(mc_["receiver"]) == "prev.owned" and len(mc_["args"]) == 1 and A.render(A.peel(mc_["args"][0])) == "new.owned":
                    for h in A.functions(fn.file):
                        if h.name == mc_["method"]["sym"] and h.block is not None:
                            prm_ = [x for p_ in h.node["sig"]["inputs"] if A.kind(p_) == "FnArg::Typed" for x in A.pat_idents(p_["0"]["pat"])]
                            if len(prm_) == 1 and f"self.tys.extend({prm_[0]}.tys)" in A.fn_text(h):
                                merged_ok = True
        if ty in MERGING and not merged_ok:
            ctx.report(f"typed:merge:{ty}", w, f"`{ty}::merge_attrs` no longer concatenates the later attribute's entries after the earlier ones", {"body": t[:200]})
        if ty == "Either":
            if "(Self::Left(p),Self::Left(n))=>" not in t or "(Self::Right(p),Self::Right(n))=>" not in t or ("_=>return Err(" not in t and "_=>Err(" not in t):
                ctx.report("typed:merge:Either", w, "`Either::merge_attrs` no longer rejects attributes of different kinds (e.g. `#[from(forward)] #[from(i32)]`)", {})
        if ty == "ContainerAttributes" and fn.file.rel.endswith("fmt/mod.rs"):
            # (the singular `fmt` / `rename_all` fields are decided semantically by OPT-ALG, optrules.rule_option_flow)
            if "prev.bounds.0.extend(new.bounds.0)" not in t:
                ctx.report("typed:merge:fmt-container", w, "fmt container attributes: `bound(..)` predicates of the later attribute must be appended to the earlier ones", {})
    for need_ in ("Empty", "Skip", "Types", "Either", "ConversionsAttribute", "ReprInt", "ReprConversion", "ContainerAttributes"):
        if need_ not in seen:
            ctx.report(f"typed:merge-missing:{need_}", UTILS, f"no `merge_attrs` override found for `{need_}` any more", {})
    ctx.floor("merge_attrs overrides", len(ovs), 10)
    # synonyms
    sk = A.get_fn(ctx.files, UTILS, "attr::skip::<Skip as Parse>::parse")
    t = A.fn_text(sk)
    ctx.instance("synonym:skip")
    if 'p if p.is_ident("skip")=>Ok(Self("skip")),p if p.is_ident("ignore")=>Ok(Self("ignore")),p=>Err(' not in t:
        ctx.report("typed:skip-synonyms", ctx.where(sk.file, sk.node), "`skip` / `ignore` are no longer the two accepted spellings (anything else rejected)", {})
    # nothing branches on Skip::name() except inside error construction
    users = 0
    for rel, f in sorted(ctx.files.items()):
        if not rel.startswith("impl/src"):
            continue
        for fn in A.functions(f):
            for mc, ps in A.method_calls(fn.block, "name"):
                r = A.render(mc["receiver"])
                if "skip" not in r.lower():
                    continue
                users += 1
                in_err = any(A.kind(p) == "Expr::Call" and (A.path_str(p["func"]) or "").endswith("Error::new") for p in ps)
                ctx.instance(f"skip-name:{rel}::{fn.qual}")
                if not in_err:
                    ctx.report(f"typed:skip-name:{rel}::{fn.qual}", ctx.where(f, mc), "behaviour depends on whether `skip` or `ignore` was written", {})
    ba = A.get_fn(ctx.files, "impl/src/fmt/mod.rs", "<BoundsAttribute as Parse>::parse")
    t = A.fn_text(ba)
    ctx.instance("synonym:bound")
    if '["bound","bounds","where"].into_iter().any(|i|p.is_ident(i))' not in t or "Self::check_legacy_fmt(input)?" not in t:
        ctx.report("typed:bound-synonyms", ctx.where(ba.file, ba.node), "`bound` / `bounds` / `where` are no longer accepted alike (or the legacy `bound = \"..\"` check is skipped)", {})
    dc = A.get_fn(ctx.files, "impl/src/fmt/display.rs", "<ContainerAttributes as Parse>::parse")
    t = A.fn_text(dc)
    ctx.instance("display:lookahead")
    if "ahead.peek(LitStr)||ahead.peek(ident::bounds)||ahead.peek(ident::bound)||ahead.peek(token::Where)" not in t or "ahead.peek(ident::rename_all)" not in t or "Err(ahead.error())" not in t:
        ctx.report("typed:display-lookahead", ctx.where(dc.file, dc.node), "Display container attribute dispatch no longer recognises literal / bound / bounds / where / rename_all and rejects the rest", {})
    # legacy syntax detection on every path into the fmt parsers
    n = 0
    for rel, qual in (("impl/src/fmt/mod.rs", "<FmtAttribute as Parse>::parse"), ("impl/src/fmt/mod.rs", "<ContainerAttributes as Parse>::parse"), ("impl/src/fmt/display.rs", "<ContainerAttributes as Parse>::parse")):
        fn = A.get_fn(ctx.files, rel, qual)
        whole = A.fn_text(fn)
        n += 1
        ctx.instance(f"legacy-check:{rel}::{qual}")
        pos = whole.find("check_legacy_fmt(input)?")
        firsts = [i for i in (whole.find("input.parse"), whole.find("input.lookahead1"), whole.find("::parse(input)")) if i >= 0]
        if pos < 0 or (firsts and pos > min(firsts)):
            ctx.report(f"typed:legacy:{rel}::{qual}", ctx.where(fn.file, fn.node), f"`{qual}` no longer starts with the legacy `fmt = \"..\"` syntax check: the pre-1.0 form is parsed as something else or silently dropped", {})
    for rel in ("impl/src/from.rs", "impl/src/into.rs"):
        fns = [fn for fn in A.functions(ctx.files[rel]) if fn.name == "parse" and fn.trait_ and fn.trait_.endswith("Parser")]
        ctx.instance(f"legacy-check:{rel}")
        n += 1
        if len(fns) != 1 or ("legacy_error(" not in A.fn_text(fns[0]) and "check_legacy_syntax(" not in A.fn_text(fns[0])) or "T::parse(input)" not in A.fn_text(fns[0]):
            ctx.report(f"typed:legacy:{rel}", rel, "the `types(..)` legacy syntax check in front of the typed parser is gone", {})
    ctx.floor("legacy syntax checks", n, 5)


def rule_attr_positions(ctx):
    """ATTR-POS: every fmt / conversion expander reads the attribute positions its documentation names through an entry point that enforces full consumption (`parse_attrs*` -> `parse_args_with`), and rejects a field-level format next to a container-level one (Debug) or a struct-level attribute next to a field-level one (AsRef, Into skip)."""
    # (which refusals exist and under which conditions is REJECT-LEDGER's subject, matched by condition and not by
    # message text; that every constructed diagnostic is actually *raised* is checked there for all sites)
    # attribute entry points
    n = 0
    for rel, f in sorted(ctx.files.items()):
        if not rel.startswith("impl/src"):
            continue
        for fn in A.functions(f):
            for c, ps in A.calls(fn.block, lambda p: re.search(r"::parse_attrs(_with)?$", p) is not None):
                n += 1
                ctx.instance(f"parse_attrs:{rel}::{fn.qual}", nontrivial=False)
    ctx.note(f"{n} typed attribute entry points (`parse_attrs*`)")
    ctx.floor("typed attribute entry points", n, 12)
    pa = A.get_fn(ctx.files, UTILS, "attr::ParseMultiple::parse_attr_with")
    ctx.instance("parse_attr_with")
    if "attr.parse_args_with(|ps|parser.parse(ps))" not in A.fn_text(pa):
        ctx.report("pos:parse_args", ctx.where(pa.file, pa.node), "typed attributes are no longer parsed with `parse_args_with` (which requires the whole argument list to be consumed)", {})


def _level_flag_sites(files, prefix="impl/src/"):
    out = []
    n = 0
    for rel, f in sorted(files.items()):
        if prefix and not rel.startswith(prefix):
            continue
        for fn in A.functions(f):
            if fn.block is None:
                continue
            for b, ps in A.find(fn.block, "Expr::Binary"):
                if A.kind(b["op"]) != "BinOp::And":
                    continue
                if ps and A.kind(ps[-1]) == "Expr::Binary" and A.kind(ps[-1]["op"]) == "BinOp::And":
                    continue  # not the top of the conjunction
                ops = []

                def flat(e):
                    e = A.peel(e)
                    if A.kind(e) == "Expr::Binary" and A.kind(e["op"]) == "BinOp::And":
                        flat(e["left"])
                        flat(e["right"])
                    else:
                        ops.append(A.render(e))

                flat(b)
                n += 1
                dflt = {m_.group(1) for o in ops for m_ in [re.fullmatch(r".*\bdefault_info\.(\w+)", o)] if m_}
                own = {m_.group(2) for o in ops for m_ in [re.fullmatch(r"(\w+)\.(\w+)", o)] if m_ and m_.group(1) != "default_info"}
                for flag in sorted(dflt & own):
                    out.append((f, fn, b, flag, "&&".join(ops)))
    return out, n


def rule_level_flags(ctx):
    """LEVEL-FLAGS: a per-variant / per-field flag of the legacy attribute state (`info.ref_`, `info.owned`, ..) already is 'the item's own setting, else the container's' (`MetaInfo::into_full`, rule OPT-ALG(meta)); no derive and-s it with the *container's* value of the same flag (`info.ref_ && state.default_info.ref_`): that makes a parameter the allow-list accepts on the variant - and the documentation describes there (`#[unwrap(ref)]` "on the enum declaration or that variant") - a silent no-op unless it is repeated on the enum. Closed set, expected empty; positive control rules/positive/levelflags.rs."""
    import os

    sites, n = _level_flag_sites(ctx.files)
    for f, fn, b, flag, txt in sites:
        key = f"{f.rel}::{fn.qual}:{flag}"
        ctx.instance(f"level-flags:{key}")
        ctx.report(f"level-flags:{key}", ctx.where(f, b), f"`{txt}` in `{fn.qual}`: the item's own `{flag}` counts only if the container sets `{flag}` too, so `#[..({flag.rstrip('_')})]` written on a variant / field alone is accepted and silently ignored (the own-else-inherited value is already what `info.{flag}` holds)", {})
    ctx.cur.instances += 1
    ctx.note(f"{n} conjunctions scanned, {len(sites)} mix an item's flag with the container's")
    pos = os.path.join(os.path.dirname(os.path.dirname(os.path.dirname(os.path.dirname(os.path.abspath(__file__))))), "rules", "positive", "levelflags.rs")
    got, _ = _level_flag_sites(A.load_files([pos]), prefix=None)
    ctx.instance("level-flags:positive-control")
    if sorted(x[3] for x in got) != ["owned", "ref_"]:
        ctx.report("level-flags:positive-control", "rules/positive/levelflags.rs", f"the positive control yields {[x[3] for x in got]} instead of ['owned', 'ref_']", {})


def rule_position_grammar(ctx):
    """POS-GRAMMAR: the attribute grammar a derive parses at a position is the one its own documentation lists there: for every `type <Position>Attribute = attr::<Grammar>;` alias whose doc comment enumerates the accepted spellings (`#[from]`, `#[from(skip)] #[from(ignore)]`, `#[from(forward)]`, `#[from(<types>)]`), the set of kinds listed equals the set of variants of the grammar enum in utils.rs (Empty / Skip / Forward / Types). A struct-level alias pointed at the variant grammar accepts `#[from(skip)] struct S(..)` and silently derives nothing."""
    KIND = [(r"#\[\w+\]$", "Empty"), (r"#\[\w+\((skip|ignore)\)\]$", "Skip"), (r"#\[\w+\(forward\)\]$", "Forward"), (r"#\[\w+\(<types>\)\]$", "Types")]
    utils = ctx.files.get(UTILS)
    enums = {}
    for it, mods, cfgs in A.iter_items(utils.ast["items"]):
        if A.kind(it) == "Item::Enum":
            enums[it["ident"]["sym"]] = [v["ident"]["sym"] for v in it["variants"]]
    n = 0
    for rel, f in sorted(ctx.files.items()):
        if not rel.startswith("impl/src/") or rel == UTILS:
            continue
        for m in re.finditer(r"((?:[ \t]*///[^\n]*\n)+)[ \t]*type\s+(\w+Attribute)\s*=\s*attr::(\w+)\s*;", f.src):
            doc, alias, target = m.group(1), m.group(2), m.group(3)
            forms = re.findall(r"#\[[^\]\n]*\]", doc)
            kinds = set()
            for fm in forms:
                fm_ = fm.replace(" ", "")
                for rx, kd in KIND:
                    if re.fullmatch(rx, fm_):
                        kinds.add(kd)
            if not kinds or target not in enums:
                continue
            n += 1
            ctx.instance(f"pos-grammar:{rel}::{alias}", sample={"alias": alias, "grammar": target, "documented kinds": sorted(kinds), "grammar kinds": enums[target]})
            if kinds != set(enums[target]):
                ctx.report(f"pos-grammar:{rel}::{alias}", f"{rel}:{f.src.count(chr(10), 0, m.start(2)) + 1}", f"`{alias}` is parsed with `attr::{target}` (accepts {sorted(enums[target])}), but its documentation lists the spellings {sorted(kinds)}: the position accepts attributes that have no meaning there (e.g. `#[from(skip)]` on a struct derives nothing, silently) or refuses documented ones", {})
    ctx.floor("documented attribute positions", n, 2)
