"""Engine M: type-checked facts from the rustc driver (tools/dmmir).

`load(repo)` runs `cargo +nightly check -p derive_more-impl --features full` with the driver as
RUSTC_WORKSPACE_WRAPPER in a fresh target directory (so cargo's freshness cache can never skip it),
and returns a Facts object. Results are cached under /verif/.cache keyed by a hash of every input
file (sources, manifests, lock file, driver binary): the facts are a pure function of those.
"""
import hashlib
import json
import os
import re
import shutil
import subprocess
import tempfile

from . import ast as A

DRIVER = os.path.join(A.VERIF, "tools", "dmmir", "target", "release", "dmmir")
CACHE = os.path.join(A.VERIF, ".cache")


def _input_hash(repo, features):
    h = hashlib.sha256()
    paths = A.rs_files(os.path.join(repo, "impl", "src")) + [
        os.path.join(repo, "impl", "Cargo.toml"),
        os.path.join(repo, "Cargo.toml"),
        os.path.join(repo, "Cargo.lock"),
        DRIVER,
    ]
    # doc files are include_str!-ed by the entry points
    docdir = os.path.join(repo, "impl", "doc")
    if os.path.isdir(docdir):
        paths += sorted(os.path.join(docdir, f) for f in os.listdir(docdir))
    for p in paths:
        h.update(p.encode())
        try:
            with open(p, "rb") as f:
                h.update(f.read())
        except OSError:
            h.update(b"<missing>")
    h.update(features.encode())
    return h.hexdigest()[:24]


def run_driver(repo, features="full", extra_args=()):
    if not os.path.exists(DRIVER):
        raise SystemExit(f"dmmir not built ({DRIVER}); run /verif/bin/setup")
    sysroot = subprocess.run(["rustc", "+nightly", "--print", "sysroot"], capture_output=True, text=True).stdout.strip()
    tmp = tempfile.mkdtemp(prefix="dmmir-")
    try:
        out = os.path.join(tmp, "facts.json")
        env = dict(os.environ)
        env.update(
            {
                "LD_LIBRARY_PATH": os.path.join(sysroot, "lib") + ":" + env.get("LD_LIBRARY_PATH", ""),
                "DMMIR_OUT": out,
                "RUSTFLAGS": "-Zmir-opt-level=0 -Awarnings",
                "RUSTC_WORKSPACE_WRAPPER": DRIVER,
                "CARGO_TARGET_DIR": os.path.join(tmp, "target"),
                "CARGO_NET_OFFLINE": "true",
            }
        )
        cmd = ["cargo", "+nightly", "check", "--offline", "-p", "derive_more-impl", "--no-default-features", "--features", features] + list(extra_args)
        r = subprocess.run(cmd, cwd=repo, env=env, capture_output=True, text=True)
        if r.returncode != 0 or not os.path.exists(out):
            raise SystemExit("dmmir: cargo check with the driver failed:\n" + r.stderr[-6000:])
        with open(out) as f:
            return json.load(f)
    finally:
        shutil.rmtree(tmp, ignore_errors=True)


_mem = {}


def load(repo=None, features="full"):
    repo = repo or A.REPO
    key = _input_hash(repo, features)
    if key in _mem:
        return _mem[key]
    os.makedirs(CACHE, exist_ok=True)
    cf = os.path.join(CACHE, f"mir-{key}.json")
    if os.path.exists(cf):
        with open(cf) as f:
            raw = json.load(f)
    else:
        raw = run_driver(repo, features)
        tmp = cf + f".{os.getpid()}.tmp"
        with open(tmp, "w") as f:
            json.dump(raw, f)
        os.replace(tmp, cf)
    facts = Facts(raw, repo)
    _mem[key] = facts
    return facts


class Facts:
    def __init__(self, raw, repo):
        self.raw = raw
        self.repo = repo
        self.bodies = raw["bodies"]
        prefix = os.path.join(repo, "")
        for b in self.bodies:
            b["rel"] = self._rel(b["file"])
            for k in ("locals", "calls", "asserts", "casts"):
                for x in b[k]:
                    x["rel"] = self._rel(x["file"])
        for s in raw["statics"]:
            s["rel"] = self._rel(s["file"])
        self.by_path = {}
        for b in self.bodies:
            self.by_path.setdefault(b["path"], []).append(b)
        self.entries = [b for b in self.bodies if b["kind"] == "Fn" and "::" not in b["path"] and b["ret"] == "proc_macro::TokenStream"]
        self.statics = raw["statics"]
        self.hash_types = raw["hash_types"]
        self._locals_by_pos = None

    def _rel(self, f):
        # cargo runs in <repo>/impl: paths are relative to the package or absolute
        if os.path.isabs(f):
            return os.path.relpath(f, self.repo)
        f = os.path.normpath(f)
        if f.startswith("impl" + os.sep) or os.path.exists(os.path.join(self.repo, f)):
            return f
        return os.path.normpath(os.path.join("impl", f))

    @staticmethod
    def parent_fn(path):
        """enclosing function of a closure body path"""
        return re.sub(r"(::\{closure#\d+\})+$", "", path)

    def local_type(self, rel, line, col):
        """type of the named local declared at rel:line:col (binding join with the syntax tree)"""
        if self._locals_by_pos is None:
            self._locals_by_pos = {}
            for b in self.bodies:
                for l in b["locals"]:
                    self._locals_by_pos.setdefault((l["rel"], l["line"], l["col"]), []).append(l)
        return self._locals_by_pos.get((rel, line, col))

    def locals_named(self, rel, name):
        out = []
        for b in self.bodies:
            if b["rel"] != rel:
                continue
            for l in b["locals"]:
                if l["name"] == name:
                    out.append((b, l))
        return out

    def call_graph(self):
        """fn path (closures folded into their parent) -> set of local callee paths"""
        local = {self.parent_fn(b["path"]) for b in self.bodies}
        g = {p: set() for p in local}
        for b in self.bodies:
            src = self.parent_fn(b["path"])
            for c in b["calls"]:
                for cand in (c["resolved"], c["callee"]):
                    if cand and "{closure#" in cand:
                        # calling one's own closure is not recursion (closure bodies are folded into the parent)
                        continue
                    if cand and self.parent_fn(cand) in local:
                        g[src].add(self.parent_fn(cand))
                        break
        return g

    def reachable_from_entries(self):
        g = self.call_graph()
        seen = set()
        stack = [e["path"] for e in self.entries]
        while stack:
            p = stack.pop()
            if p in seen:
                continue
            seen.add(p)
            stack.extend(g.get(p, ()))
        return seen
