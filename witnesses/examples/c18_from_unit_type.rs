//! C18 probe: `#[from(())]` on a single-field struct must be a diagnostic (type error), not a derive panic.
#![allow(dead_code)]
#[derive(derive_more::From)]
#[from(())]
struct S(i32);

fn main() {}
