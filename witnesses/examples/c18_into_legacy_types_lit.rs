//! C18 probe: legacy `#[into(types(1))]` with a non-string literal must be a diagnostic, not a panic.
#![allow(dead_code)]
#[derive(derive_more::Into)]
#[into(types(1))]
struct S(i32);
fn main() {}
