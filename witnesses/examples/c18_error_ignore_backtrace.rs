//! C18 probe: `cargo check --example c18_error_ignore_backtrace` must not report
//! "proc-macro derive panicked" (a compile error about the unstable `provide` API on stable is fine:
//! that is a diagnostic, not an internal failure). Before the fix: index out of bounds in error.rs.
#![allow(dead_code)]
#[derive(Debug)]
struct Backtrace;

#[derive(Debug, derive_more::Display, derive_more::Error)]
#[display("t")]
struct T(#[error(ignore)] i32, Backtrace);

fn main() {}
