#!/bin/bash
# probe.sh <example>: PANIC if the derive panicked while expanding the example, else NO-PANIC
cd "$(dirname "$0")"
out=$(cargo check --offline --example "$1" 2>&1)
if echo "$out" | grep -q "proc-macro derive panicked"; then echo "PANIC: $(echo "$out" | grep -m1 'message:')"; exit 1; fi
echo "NO-PANIC"; exit 0
