//! C16 split:hazard:arrow-in-angle (fixed by /repo 77da0a3): the `>` of `->` inside a turbofish is not the
//! closing angle bracket, so `pick::<fn() -> u8, u8>(*_0)` is ONE format argument. Cross-reference only:
//! rule_split_table decides.
use derive_more::Display;

fn pick<F, T>(x: T) -> T {
    x
}

#[derive(Display)]
#[display("{}", pick::<fn() -> u8, u8>(*_0))]
struct Arrow(u8);

#[test]
fn arrow_in_turbofish_is_one_argument() {
    // one bare placeholder referring to its only argument => the caller's width applies
    assert_eq!(format!("{:>4}", Arrow(7)), "   7");
}
