//! Witness for the fixed finding C10 / TPL-UFCS (fix 5cf30ae): an inherent method of a field type named like the
//! operator method must not take over the derived operator. Cross-reference only; the deciding rule is static.
use core::ops::{Add, AddAssign};

#[derive(Clone, Copy, Debug, PartialEq)]
pub struct Meters(pub i32);

impl Meters {
    /// Inherent helper that happens to be called `add` (e.g. a builder-style or saturating variant).
    pub fn add(self, _other: Meters) -> Meters {
        Meters(-1)
    }
    pub fn add_assign(&mut self, _other: Meters) {
        self.0 = -1;
    }
}
impl Add for Meters {
    type Output = Meters;
    fn add(self, o: Meters) -> Meters {
        Meters(self.0 + o.0)
    }
}
impl AddAssign for Meters {
    fn add_assign(&mut self, o: Meters) {
        self.0 += o.0
    }
}

#[derive(Clone, Copy, Debug, PartialEq, derive_more::Add, derive_more::AddAssign)]
pub struct Pair(pub Meters, pub Meters);

#[derive(Clone, Copy, Debug, PartialEq, derive_more::Add)]
pub enum Shape {
    Line(Meters),
    Rect { w: Meters, h: Meters },
}

#[test]
fn field_wise_operator() {
    let (a, b) = (Pair(Meters(1), Meters(2)), Pair(Meters(10), Meters(20)));
    assert_eq!(a + b, Pair(a.0 + b.0, a.1 + b.1));
    let mut c = a;
    c += b;
    assert_eq!(c, a + b);
}

#[test]
fn enum_field_wise_operator() {
    assert_eq!((Shape::Line(Meters(1)) + Shape::Line(Meters(2))).unwrap(), Shape::Line(Meters(1) + Meters(2)));
}
