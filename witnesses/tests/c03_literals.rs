//! C03/C04 witnesses: literals std accepts must be read the same way by the derive (bounds depend on it).
use derive_more::Display;

// whitespace before the closing brace is allowed by std::fmt
#[derive(Display)]
#[display("{_0 }")]
struct Ws<T>(T);

// `.*` takes the next positional argument for the precision *before* the value
#[derive(Display)]
#[display("{:.*}", _0, _1)]
struct Star<T>(usize, T);

#[test]
fn bounds_are_inferred() {
    assert_eq!(Ws(5).to_string(), "5");
    assert_eq!(Star(2, 1.23456).to_string(), "1.23");
}
