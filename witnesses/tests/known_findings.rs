//! Witnesses for the *known findings* recorded in /verif/known_findings.json (genuine defects that were
//! not repaired). Each test asserts what the property demands and is expected to FAIL on the current tree
//! (`cargo test --test known_findings` reports them); when one starts passing the defect is gone and the
//! entry must be removed from known_findings.json. They decide nothing: the rules do.
use derive_more::Display;

trait Tr {
    type Out;
}
impl Tr for (u8, u8) {
    type Out = u64;
}
type M<K, V> = <(K, V) as Tr>::Out;

// C16 split:uncovered:cast-type-generics -- `x as M<K, V>` is one argument
#[derive(Display)]
#[display("{}", *_0 as M<u8, u8>)]
struct Cast(u8);

#[test]
fn c16_cast_type_generics_is_one_argument() {
    // one bare placeholder referring to its only argument => caller's width applies
    assert_eq!(format!("{:>4}", Cast(7)), "   7");
}


// C06 sib:field:pretty-value-fresh-format_args -- `{:#x?}` on a tuple struct keeps the hex flag in std
#[derive(derive_more::Debug)]
struct Tup(u8);
#[derive(Debug)]
struct StdTup(u8);

#[test]
fn c06_pretty_tuple_keeps_hex_flag() {
    assert_eq!(format!("{:#x?}", Tup(255)), format!("{:#x?}", StdTup(255)).replace("StdTup", "Tup"));
}
