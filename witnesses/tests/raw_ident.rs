//! RAW-ID witnesses (C06, C11, C12, C13, C18): raw identifiers must be handled like std handles them.
#![allow(non_camel_case_types, dead_code)]

#[derive(derive_more::Debug)]
struct r#struct;

#[derive(derive_more::Debug)]
struct r#fn(u8);

#[derive(derive_more::Debug)]
struct r#mod {
    r#type: u8,
}

#[derive(derive_more::Debug)]
enum E {
    r#match(u8),
    r#if { r#else: u8 },
    r#loop,
}

#[derive(Debug)]
enum StdE {
    r#match(u8),
    r#if { r#else: u8 },
    r#loop,
}

#[derive(derive_more::FromStr, Debug, PartialEq)]
enum Kw {
    r#type,
    Other,
}

#[derive(derive_more::IsVariant, derive_more::Unwrap, derive_more::TryUnwrap, Debug, PartialEq)]
enum Acc {
    r#type(u8),
    r#Other,
}

#[derive(derive_more::TryFrom, Debug, PartialEq)]
#[try_from(repr)]
#[repr(u8)]
enum Rp {
    r#type = 3,
    r#Next,
}

#[test]
fn debug_matches_std() {
    assert_eq!(format!("{:?}", r#struct), "struct");
    assert_eq!(format!("{:?}", r#fn(1)), "fn(1)");
    assert_eq!(format!("{:?}", r#mod { r#type: 1 }), "mod { type: 1 }");
    assert_eq!(format!("{:?}", E::r#match(1)), format!("{:?}", StdE::r#match(1)));
    assert_eq!(format!("{:?}", E::r#if { r#else: 2 }), format!("{:?}", StdE::r#if { r#else: 2 }));
    assert_eq!(format!("{:?}", E::r#loop), format!("{:?}", StdE::r#loop));
}

#[test]
fn from_str_parses_own_name() {
    assert_eq!("type".parse::<Kw>().unwrap(), Kw::r#type);
    assert!("r#type".parse::<Kw>().is_err());
}

#[test]
fn accessors_exist() {
    assert!(Acc::r#type(1).is_type());
    assert_eq!(Acc::r#type(1).unwrap_type(), 1);
    assert_eq!(Acc::r#type(1).try_unwrap_type().unwrap(), 1);
    assert!(Acc::r#Other.is_other());
}

#[test]
fn try_from_repr() {
    assert_eq!(Rp::try_from(3u8).unwrap(), Rp::r#type);
    assert_eq!(Rp::try_from(4u8).unwrap(), Rp::r#Next);
}
