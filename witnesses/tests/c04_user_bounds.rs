//! C04 "plus any `bound(...)` predicates": an explicit `#[display(bound(..))]` constrains the impl also when the item
//! has no format literal of its own, and when it is written at the enum level (cross-reference for rule USER-BOUNDS;
//! fixed in /repo, see known_findings.json).
#![allow(dead_code)]
use core::{fmt, marker::PhantomData};
use derive_more::Display;

trait Marker {}
struct NoMarker;
impl fmt::Display for NoMarker {
    fn fmt(&self, f: &mut fmt::Formatter<'_>) -> fmt::Result {
        f.write_str("x")
    }
}
struct WithMarker;
impl Marker for WithMarker {}
impl fmt::Display for WithMarker {
    fn fmt(&self, f: &mut fmt::Formatter<'_>) -> fmt::Result {
        f.write_str("m")
    }
}

#[derive(Display)]
#[display(bound(T: Marker))]
struct S<T>(T);

#[derive(Display)]
#[display(bound(T: Marker))]
enum E<T> {
    A(T),
}

#[derive(Display)]
#[display("<{_variant}>")]
#[display(bound(T: Marker))]
enum Shared<T> {
    #[display("{_0}")]
    A(T),
}

#[derive(Display)]
enum PerVariant<T> {
    #[display(bound(T: Marker))]
    A(T),
}

struct Probe<T>(PhantomData<T>);
trait Fallback {
    fn is_display(&self) -> bool {
        false
    }
}
impl<T> Fallback for Probe<T> {}
impl<T: fmt::Display> Probe<T> {
    fn is_display(&self) -> bool {
        true
    }
}
macro_rules! is_display {
    ($t:ty) => {
        Probe::<$t>(PhantomData).is_display()
    };
}

#[test]
fn bound_without_literal_constrains_the_impl() {
    assert!(is_display!(S<WithMarker>));
    assert!(!is_display!(S<NoMarker>));
    assert_eq!(S(WithMarker).to_string(), "m");
}

#[test]
fn enum_level_bound_constrains_the_impl() {
    assert!(is_display!(E<WithMarker>));
    assert!(!is_display!(E<NoMarker>));
    assert!(is_display!(Shared<WithMarker>));
    assert!(!is_display!(Shared<NoMarker>));
    assert_eq!(Shared::A(WithMarker).to_string(), "<m>");
}

#[test]
fn variant_level_bound_without_literal_constrains_the_impl() {
    assert!(is_display!(PerVariant<WithMarker>));
    assert!(!is_display!(PerVariant<NoMarker>));
}
