//! C12 witness: a constant-expression discriminant keeps its meaning when the next implicit one is derived.
use derive_more::TryFrom;

#[derive(TryFrom, Debug, PartialEq, Clone, Copy)]
#[try_from(repr)]
#[repr(u8)]
enum E {
    A = 1 << 3,
    B,
    C(u8) = 1 | 32,
    D,
}

#[test]
fn inverse_of_cast() {
    assert_eq!(E::try_from(8u8).unwrap(), E::A);
    assert_eq!(E::try_from(9u8).unwrap(), E::B); // the compiler gives B the discriminant (1 << 3) + 1 == 9
    assert!(E::try_from(16u8).is_err());
    assert_eq!(E::try_from(34u8).unwrap(), E::D); // D == (1 | 32) + 1
}
