//! C17 / C02 witness (SEP-END): a trailing comma after the literal alone - which `format!("lit",)` accepts - is an
//! equivalent spelling. Failed to compile ("expected expression, found `,`") before fix f64f14f.
use derive_more::{Debug, Display};

#[derive(Display)]
#[display("lit",)]
struct A;

#[derive(Display)]
#[display("{} ", _0,)]
struct B(u8);

#[derive(Debug)]
#[debug("lit",)]
struct C;

#[derive(Debug)]
struct D(#[debug("x",)] u8);

#[test]
fn trailing_commas_are_equivalent_spellings() {
    assert_eq!(A.to_string(), format!("lit",));
    assert_eq!(B(1).to_string(), "1 ");
    assert_eq!(format!("{:?}", C), "lit");
    assert_eq!(format!("{:?}", D(1)), "D(x)");
}
