//! C16 witness: `ident == expr` is a comparison, not a `name =` alias.
use derive_more::Display;

#[derive(Display)]
#[display("{}", a == b)]
struct S {
    a: i32,
    b: i32,
}

#[test]
fn comparison_is_one_argument() {
    assert_eq!(S { a: 1, b: 1 }.to_string(), "true");
    assert_eq!(format!("{:>6}", S { a: 1, b: 2 }), " false"); // single bare placeholder, one argument: transparent
}
