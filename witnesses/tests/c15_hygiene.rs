//! C15 witness: derives must compile in a module without any prelude and with hostile local macros.
#![allow(dead_code)]

#[no_implicit_prelude]
mod no_prelude {
    use ::derive_more; // the one name expansions are allowed to rely on
    // hostile macros of the same name as the ones the expansions used to call unqualified
    macro_rules! panic { ($($t:tt)*) => { compile_error!("caller's panic! was used") }; }
    macro_rules! stringify { ($($t:tt)*) => { compile_error!("caller's stringify! was used") }; }

    #[derive(::derive_more::Debug, ::derive_more::Display, ::derive_more::Error)]
    #[display("e")]
    pub struct Inner;

    #[derive(::derive_more::Debug, ::derive_more::Display, ::derive_more::Error)]
    #[display("s")]
    pub struct S {
        source: Inner,
    }

    #[derive(::derive_more::Debug, ::derive_more::Display, ::derive_more::Error)]
    pub enum E {
        #[display("a")]
        A { source: Inner },
        #[display("b")]
        B,
    }

    #[derive(::derive_more::FromStr)]
    pub enum F {
        Foo,
        Bar,
    }

    #[derive(::derive_more::IsVariant, ::derive_more::Unwrap, ::derive_more::TryUnwrap)]
    pub enum U {
        One(u8),
        Two,
    }
}

#[test]
fn compiles_and_runs() {
    use std::error::Error as _;
    let e = no_prelude::E::A { source: no_prelude::Inner };
    assert!(e.source().is_some());
    assert!(no_prelude::E::B.source().is_none());
    assert!(matches!("foo".parse::<no_prelude::F>(), Ok(no_prelude::F::Foo)));
    assert!(no_prelude::U::Two.is_two());
    assert_eq!(no_prelude::U::One(3).unwrap_one(), 3);
    assert!(no_prelude::U::Two.try_unwrap_one().is_err());
}
