//! Known finding C16 split:hazard:binary-or (expected to FAIL TO COMPILE on the current tree):
//! `x = *a | *b, y = *c | *d` are two named arguments for format_args!, so `{y}` is the alias and the
//! *field* `y: T` is not formatted at all; the derive pairs the two `|` across the comma, sees one
//! argument, resolves `{y}` to the field and demands `T: Display`.
use derive_more::Display;

struct NoDisplay;

#[derive(Display)]
#[display("{x} {y}", x = *a | *b, y = *c | *d)]
struct Or<T> {
    a: u8,
    b: u8,
    c: u8,
    d: u8,
    y: T,
}

#[test]
fn alias_shadows_field() {
    assert_eq!(Or { a: 1, b: 2, c: 4, d: 8, y: NoDisplay }.to_string(), "3 12");
}
