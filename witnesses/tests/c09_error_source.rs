//! C09 witness: an ignored field must never change which of the remaining fields `source()` returns.
use derive_more::{Display, Error};
use std::error::Error as _;

#[derive(Debug, Display, Error)]
#[display("a")]
struct ErrA;
#[derive(Debug, Display, Error)]
#[display("b")]
struct ErrB;

#[derive(Debug, Display, Error)]
enum E {
    #[display("named")]
    Named {
        #[error(ignore)]
        first: ErrA,
        #[error(source)]
        second: ErrB,
    },
    #[display("tuple")]
    Tuple(#[error(ignore)] ErrA, #[error(source)] ErrB),
}

#[derive(Debug, Display, Error)]
#[display("s")]
struct S(#[error(ignore)] ErrA, #[error(source)] ErrB);

// generic: the bound must be placed on the source's type (`U`), not on the ignored field's (`T`)
#[derive(Debug, Display, Error)]
#[display("g")]
struct G<T, U>(#[error(ignore)] T, #[error(source)] U);

#[derive(Debug)]
struct NotAnError;

#[test]
fn source_is_the_selected_field() {
    let e = E::Named { first: ErrA, second: ErrB };
    assert_eq!(e.source().unwrap().to_string(), "b");
    let e = E::Tuple(ErrA, ErrB);
    assert_eq!(e.source().unwrap().to_string(), "b");
    assert_eq!(S(ErrA, ErrB).source().unwrap().to_string(), "b");
    assert_eq!(G(NotAnError, ErrB).source().unwrap().to_string(), "b");
}
