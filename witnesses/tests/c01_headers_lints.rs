//! C01 witnesses: generic inputs and `#[deprecated]` variants under `#![deny(warnings)]`.
#![deny(warnings)]
#![allow(dead_code)]

use derive_more::{Add, Display, Error, FromStr, TryFrom, TryInto};

// TPL-HDR: generics go on the enum, not on the integer (try_from.rs), and are present at all (from_str.rs)
#[derive(TryFrom, Debug, PartialEq)]
#[try_from(repr)]
#[repr(u8)]
enum ReprGeneric<const N: usize> {
    A = 1,
    B,
}

#[derive(FromStr, Debug, PartialEq)]
enum StrGeneric<const N: usize> {
    Foo,
    Bar,
}

// TPL-LINT: deprecated variants must not make the expansion warn
#[derive(Add)]
enum DepAdd {
    #[deprecated]
    Old(i32),
    New(i32),
}

#[derive(TryInto)]
enum DepTryInto {
    #[deprecated]
    Old(i32),
    New(u8),
}

#[derive(FromStr, Debug)]
enum DepFromStr {
    #[deprecated]
    Old,
    New,
}

#[derive(Debug, Display, Error)]
#[display("inner")]
struct Inner;

#[derive(Debug, Display, Error)]
enum DepError {
    #[deprecated]
    #[display("old")]
    Old { source: Inner },
    #[display("new")]
    New,
}

#[test]
fn generic_headers_work() {
    assert_eq!(ReprGeneric::<3>::try_from(2u8).unwrap(), ReprGeneric::<3>::B);
    assert_eq!("bar".parse::<StrGeneric<1>>().unwrap(), StrGeneric::<1>::Bar);
}
