//! Witness for the fixed finding C18 / EXT-PRE (fix e9750f3): a missing comma between `#[into(..)]` types is a
//! diagnostic, not a proc-macro panic. The compile-fail direction cannot be a `#[test]`; the positive control
//! (well-formed list) is kept here, the negative one is checked by hand with `cargo check` (see DESIGN.md §4).
#[derive(derive_more::Into)]
#[into(i32, i64)]
struct A(i32);

#[test]
fn well_formed_list_still_works() {
    let x: i64 = A(7).into();
    assert_eq!(x, 7);
}
