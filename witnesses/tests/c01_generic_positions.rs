//! C01 witnesses (GEN-DETECT): every position in which a generic parameter can be named inside a field type is seen by
//! the derive that decides on where-predicates from it. Each of these failed to compile before the `fix:` commits
//! 9c811c6 (T::Assoc), 29ca11d (braced const argument) and 1834302 (Error: non-path containers).
#![allow(dead_code, unused_braces)]
use derive_more::{AsMut, AsRef, Debug, Display, Error};

trait Tr {
    type A;
}
struct U;
impl Tr for U {
    type A = String;
}

// AsRef / AsMut: first path segment is a type parameter
#[derive(AsRef, AsMut)]
struct Proj<T: Tr>(
    #[as_ref(str)]
    #[as_mut(str)]
    T::A,
);
#[derive(AsRef)]
struct ProjNested<T: Tr> {
    #[as_ref(str)]
    a: Vec<T::A>,
}

// a path that merely *contains* a segment spelled like a parameter is not generic: identity, not forwarding
mod model {
    pub struct Item(pub u8);
    impl AsRef<Item> for Item {
        fn as_ref(&self) -> &Item {
            static OTHER: Item = Item(99);
            &OTHER
        }
    }
}
type Record = model::Item;
#[derive(AsRef)]
struct Tagged<Item>(#[as_ref(Record)] model::Item, core::marker::PhantomData<Item>);

// AsRef / AsMut: const parameter inside a braced const argument
struct Chunk<const N: usize>([u8; N]);
impl AsRef<[u8]> for Chunk<4> {
    fn as_ref(&self) -> &[u8] {
        &self.0
    }
}
impl AsMut<[u8]> for Chunk<4> {
    fn as_mut(&mut self) -> &mut [u8] {
        &mut self.0
    }
}
#[derive(AsRef, AsMut)]
struct Braced<const N: usize> {
    #[as_ref([u8])]
    #[as_mut([u8])]
    c: Chunk<{ N }>,
}

// Error: the source type mentions the parameter below an array / tuple / slice / pointer / fn type
#[derive(Debug, Display, Error)]
#[display("inner")]
struct Inner<A>(#[error(not(source))] A);
#[derive(Debug, Display, Error)]
#[display("outer")]
struct OuterArr<T> {
    source: Inner<[T; 2]>,
}
#[derive(Debug, Display, Error)]
#[display("outer")]
struct OuterTuple<T> {
    source: Inner<(T, u8)>,
}
#[derive(Debug, Display, Error)]
#[display("outer")]
struct OuterSlice<T: 'static> {
    source: Inner<&'static [T]>,
}
#[derive(Debug, Display, Error)]
#[display("outer")]
struct OuterPtr<T> {
    source: Inner<*const T>,
}
#[derive(Debug, Display, Error)]
#[display("outer")]
struct OuterFn<T> {
    source: Inner<fn(T) -> u8>,
}

#[test]
fn generic_positions() {
    let p: Proj<U> = Proj("x".to_string());
    let s: &str = p.as_ref();
    assert_eq!(s, "x");
    let b = Braced::<4> { c: Chunk([1, 2, 3, 4]) };
    let s: &[u8] = b.as_ref();
    assert_eq!(s, &[1, 2, 3, 4]);
    let t = Tagged(model::Item(7), core::marker::PhantomData::<u8>);
    let r: &Record = t.as_ref();
    assert_eq!(r.0, 7, "an alias of the field's own type yields the field itself");
    use std::error::Error as _;
    assert!(OuterArr { source: Inner([1u8, 2]) }.source().is_some());
}
