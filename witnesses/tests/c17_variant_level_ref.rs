//! C17 / C11: `#[unwrap(ref)]` / `#[try_unwrap(ref_mut)]` are documented "on the enum declaration or that variant";
//! written on a variant alone they must have their documented effect instead of being accepted and ignored
//! (cross-reference for rule LEVEL-FLAGS; fixed in /repo).
use derive_more::{TryUnwrap, Unwrap};

#[derive(Debug, PartialEq, TryUnwrap, Unwrap)]
enum E {
    #[unwrap(ref, ref_mut)]
    #[try_unwrap(ref, ref_mut)]
    A(i32),
}

#[derive(Debug, PartialEq, TryUnwrap, Unwrap)]
#[unwrap(ref)]
#[try_unwrap(ref)]
enum Both {
    A(i32),
    #[unwrap(ref_mut)]
    #[try_unwrap(ref_mut)]
    B(u8),
}

#[test]
fn variant_level_reference_kinds_generate_their_methods() {
    let mut e = E::A(1);
    assert_eq!(*e.unwrap_a_ref(), 1);
    *e.unwrap_a_mut() = 2;
    assert_eq!(*e.try_unwrap_a_ref().unwrap(), 2);
    *e.try_unwrap_a_mut().unwrap() = 3;
    assert_eq!(e, E::A(3));
}

#[test]
fn enum_level_setting_is_inherited_and_extended() {
    let mut b = Both::B(1);
    assert_eq!(*Both::A(5).unwrap_a_ref(), 5);
    assert_eq!(*b.unwrap_b_ref(), 1);
    *b.unwrap_b_mut() = 7;
    *b.try_unwrap_b_mut().unwrap() += 1;
    assert_eq!(b.unwrap_b(), 8);
}
