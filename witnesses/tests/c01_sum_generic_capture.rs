//! C01 / C15: the method-level generic parameter of the generated `fn sum<..>` / `fn product<..>` must not capture a
//! user type of the same name spliced into its body (cross-reference for rule GEN-CAPTURE; fixed in /repo).
use derive_more::{Add, Mul, Product, Sum};

#[derive(Add, Clone, Copy, Debug, PartialEq, Sum)]
struct I(i32);

#[derive(Add, Clone, Copy, Debug, PartialEq, Sum)]
struct W(I);

#[derive(Clone, Copy, Debug, Mul, PartialEq, Product)]
#[mul(forward)]
struct P(i32);

#[test]
fn user_type_named_like_the_iterator_parameter() {
    assert_eq!([W(I(1)), W(I(2))].into_iter().sum::<W>(), W(I(3)));
    assert_eq!([P(2), P(3)].into_iter().product::<P>(), P(6));
}
