//! C04 witness: a field-level `#[debug("..", other_field)]` on a NON-generic field that formats a generic
//! field must still produce the bound for the generic field's type.
use derive_more::Debug;

#[derive(Debug)]
struct S<T> {
    #[debug("{}", b)]
    a: i32,
    #[debug(skip)]
    b: T,
}

// and a non-generic type referenced from a generic field's attribute must NOT be bounded by anything odd
struct NoDebug;
#[derive(Debug)]
struct Q<T> {
    #[debug("{}", n)]
    g: T,
    n: i32,
    #[debug(skip)]
    _x: NoDebug,
}

#[test]
fn works() {
    assert_eq!(format!("{:?}", S { a: 1, b: "x" }), "S { a: x, .. }");
    assert_eq!(format!("{:?}", Q { g: NoDebug, n: 3, _x: NoDebug }), "Q { g: 3, n: 3, .. }");
}
