//! Witness crate: each tests/*.rs file (and each doc-test below) demonstrates one finding against the
//! real macro. Witnesses decide nothing; they show that a construct reported by a rule really fails.

/// C05: a positional index that does not denote an existing argument must be a compile error, not a
/// transparent delegation (`{1}` with one argument).
///
/// ```compile_fail
/// #[derive(derive_more::Display)]
/// #[display("{1}", _0)]
/// struct S(i32);
/// fn main() { let _ = S(1).to_string(); }
/// ```
///
/// The compiling twin differs only in the index:
///
/// ```
/// #[derive(derive_more::Display)]
/// #[display("{0}", _0)]
/// struct S(i32);
/// fn main() { assert_eq!(format!("{:>3}", S(1)), "  1"); }
/// ```
pub struct C05PositionalIndex;

/// C17: a parameter contradicting another one of the same attribute is a compile error, not "last wins".
///
/// ```compile_fail
/// #[derive(Debug, derive_more::Display, derive_more::Error)]
/// #[display("inner")]
/// struct Inner;
/// #[derive(Debug, derive_more::Display, derive_more::Error)]
/// #[display("outer")]
/// struct Outer {
///     #[error(source, not(source))]
///     inner: Inner,
/// }
/// fn main() {}
/// ```
///
/// The compiling twin differs only in the second parameter:
///
/// ```
/// #[derive(Debug, derive_more::Display, derive_more::Error)]
/// #[display("inner")]
/// struct Inner;
/// #[derive(Debug, derive_more::Display, derive_more::Error)]
/// #[display("outer")]
/// struct Outer {
///     #[error(source)]
///     inner: Inner,
/// }
/// fn main() {}
/// ```
pub struct C17Contradiction;
