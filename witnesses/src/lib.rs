//! Witness crate: each tests/*.rs file demonstrates one finding against the real macro.
