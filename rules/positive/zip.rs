// positive control for ZIP-ALIGN (generic.rule_zip_alignment): each function must be reported
struct D { xs: Vec<u8>, ys: Vec<u8> }
fn a(fields: &[u8], attrs: Vec<Option<u8>>) -> Vec<(u8, u8)> { fields.iter().cloned().zip(attrs.into_iter().flatten()).collect() }
fn b(state: &D, data: &D) -> Vec<(u8, u8)> { Iterator::zip(state.xs.iter().cloned(), data.ys.iter().cloned()).collect() }
