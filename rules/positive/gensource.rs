// Positive control of GEN-SOURCE (lib/dm/rules/hdr.py): the read of `state.generics` must be reported on every run.
fn expand(input: &DeriveInput, state: &State) -> TokenStream {
    let generics_impl = add_extra_generic_param(&state.generics, quote! { 'a });
    let (impl_generics, _, _) = generics_impl.split_for_impl();
    let (_, ty_generics, where_clause) = input.generics.split_for_impl();
    quote! { impl #impl_generics Tr for X #ty_generics #where_clause {} }
}
