// positive control for ORDER (generic.rule_order_adaptors): each function must be reported
fn a(fields: &[u8]) -> Vec<u8> { fields.iter().rev().cloned().collect() }
fn b(mut v: Vec<u8>) -> Vec<u8> { v.sort(); v }
fn c(mut v: Vec<u8>) -> Vec<u8> { v.reverse(); v }
fn d(mut v: Vec<u8>) -> Vec<u8> { v.dedup(); v }
fn e(mut v: Vec<u8>) -> Vec<u8> { v.swap(0, 1); v }
