// positive control for RAW-FLAG (state.rule_raw_flags): the condition must be reported
fn expand(state: &State) -> bool {
    if state.default_info.info.forward.is_some() { return true; }
    state.default_info.forward
}
