// positive control for POS-SEARCH (generic.rule_position_search): each function must be reported
fn a(fields: &[&Field], field: &Field) -> usize { fields.iter().position(|f| *f == field).unwrap() }
fn b(types: &[Type], ty: &Type) -> Option<usize> { types.iter().position(|t| t == ty) }
fn c(fields: &[Field], field: &Field) -> Option<usize> { fields.iter().rposition(|f| f == field) }
// not reported: a search by name / by predicate
fn d(fields: &[Field], name: &str) -> Option<usize> { fields.iter().position(|f| f.ident.as_ref().is_some_and(|i| i == name)) }
