// Positive control of LEVEL-FLAGS (lib/dm/rules/attrs.py): both conjunctions must be reported on every run.
fn methods(info: &FullMetaInfo, state: &State) -> Vec<&'static str> {
    let mut funcs = vec![];
    if info.owned && state.default_info.owned {
        funcs.push("owned");
    }
    if state.default_info.ref_ && (info.ref_) && !funcs.is_empty() {
        funcs.push("ref");
    }
    if info.ref_mut {
        funcs.push("ref_mut");
    }
    funcs
}
