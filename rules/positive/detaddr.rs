// Positive control of DET-ADDR (lib/dm/rules/det.py): both sites must be reported on every run.
fn dedup<'a>(tys: &[&'a Ty]) -> Vec<&'a Ty> {
    let mut seen = std::collections::HashMap::new();
    for ty in tys {
        seen.insert(*ty as *const Ty, *ty);
    }
    let _p = tys.as_ptr();
    seen.into_values().collect()
}
