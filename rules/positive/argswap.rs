// positive control for ARG-SWAP (generic.rule_arg_order): the call in `caller` must be reported
fn callee(prev: u8, new: u8) -> u8 { prev - new }
fn caller(prev: u8, new: u8) -> u8 { callee(new, prev) }
