// positive control for FIELD-CORR (generic.rule_field_correspondence): `ref_mut` must be reported
struct Full { owned: bool, ref_: bool, ref_mut: bool }
struct Part { owned: Option<bool>, ref_: Option<bool>, ref_mut: Option<bool> }
fn into_full(p: Part, d: Full) -> Full {
    Full { owned: p.owned.unwrap_or(d.owned), ref_: p.ref_.unwrap_or(d.ref_), ref_mut: p.ref_mut.unwrap_or(d.ref_) }
}
