// positive control for CUT (generic.rule_truncating_adaptors): each function must be reported
fn a(xs: &[Option<u8>]) -> Vec<u8> { xs.iter().map_while(|x| *x).collect() }
fn b(xs: &[u8]) -> Vec<u8> { xs.iter().take_while(|x| **x > 0).cloned().collect() }
fn c(xs: &[u8]) -> Vec<u8> { xs.iter().skip_while(|x| **x > 0).cloned().collect() }
fn d(xs: &[u8]) -> Vec<u8> { xs.iter().skip(1).cloned().collect() }
