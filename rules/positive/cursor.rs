// Positive control of CURSOR (lib/dm/rules/state.py): both shapes must be reported on every run.
fn shared(xs: &[u32], ys: &[u32]) -> Vec<u32> {
    let mut fields = xs.iter();
    ys.iter()
        .filter_map(|y| fields.find(|x| *x == y).copied())
        .collect()
}

fn reuse(xs: &[Option<u32>]) -> Option<u32> {
    let mut present = xs.iter().filter_map(Option::as_ref);
    let all = present.all(|x| *x > 1);
    if !all {
        return present.find_map(|x| (*x <= 1).then_some(*x));
    }
    None
}
