//! dmmir: a rustc driver (RUSTC_WORKSPACE_WRAPPER) dumping type-checked facts about the crate
//! `derive_more_impl` as one JSON file ($DMMIR_OUT): per MIR body the named locals with their types,
//! every resolved call, every Assert terminator, pointer->integer casts, every ADT instantiation of a
//! hashed collection; plus statics / thread_locals and the proc-macro entry points.
//! Other crates are compiled untouched.
#![feature(rustc_private)]

extern crate rustc_driver;
extern crate rustc_hir;
extern crate rustc_interface;
extern crate rustc_middle;
extern crate rustc_span;

use rustc_driver::Compilation;
use rustc_hir::def::DefKind;
use rustc_middle::mir::{self, CastKind, Rvalue, StatementKind, TerminatorKind};
use rustc_middle::ty::{self, Ty, TyCtxt, TypeVisitableExt};
use rustc_span::Span;
use std::collections::BTreeSet;
use std::fmt::Write as _;

struct Cb;

fn esc(s: &str) -> String {
    let mut o = String::with_capacity(s.len() + 2);
    o.push('"');
    for c in s.chars() {
        match c {
            '"' => o.push_str("\\\""),
            '\\' => o.push_str("\\\\"),
            '\n' => o.push_str("\\n"),
            '\t' => o.push_str("\\t"),
            c if (c as u32) < 0x20 => {
                let _ = write!(o, "\\u{:04x}", c as u32);
            }
            c => o.push(c),
        }
    }
    o.push('"');
    o
}

fn loc(tcx: TyCtxt<'_>, sp: Span) -> String {
    // position as written in the crate: macro-expanded spans are mapped to their outermost call site
    let sm = tcx.sess.source_map();
    let root = sp.source_callsite();
    let lo = sm.lookup_char_pos(root.lo());
    let hi = sm.lookup_char_pos(root.hi());
    let file = match &lo.file.name {
        rustc_span::FileName::Real(r) => r
            .local_path()
            .map(|p| p.display().to_string())
            .unwrap_or_else(|| "?".into()),
        other => format!("{:?}", other),
    };
    format!(
        "\"file\":{},\"line\":{},\"col\":{},\"eline\":{},\"ecol\":{}",
        esc(&file),
        lo.line,
        lo.col.0 + 1,
        hi.line,
        hi.col.0 + 1
    )
}

fn macro_chain(sp: Span) -> String {
    // names of the macros this span was expanded from, innermost first
    let mut names = Vec::new();
    let mut s = sp;
    let mut guard = 0;
    while s.from_expansion() && guard < 32 {
        let d = s.ctxt().outer_expn_data();
        match d.kind {
            rustc_span::ExpnKind::Macro(_, name) => names.push(esc(&name.to_string())),
            ref k => names.push(esc(&format!("{:?}", k))),
        }
        s = d.call_site;
        guard += 1;
    }
    format!("[{}]", names.join(","))
}

fn collect_hash_types<'tcx>(tcx: TyCtxt<'tcx>, t: Ty<'tcx>, out: &mut BTreeSet<String>) {
    for arg in t.walk() {
        if let Some(t) = arg.as_type() {
            if let ty::Adt(adt, _) = t.kind() {
                let p = tcx.def_path_str(adt.did());
                if p.ends_with("HashMap") || p.ends_with("HashSet") || p.contains("hash_map::") || p.contains("hash_set::") {
                    out.insert(format!("{}", t));
                }
            }
        }
    }
}

impl rustc_driver::Callbacks for Cb {
    fn after_analysis<'tcx>(&mut self, _c: &rustc_interface::interface::Compiler, tcx: TyCtxt<'tcx>) -> Compilation {
        let krate = tcx.crate_name(rustc_span::def_id::LOCAL_CRATE).to_string();
        if krate != "derive_more_impl" {
            return Compilation::Continue;
        }
        let out = match std::env::var("DMMIR_OUT") {
            Ok(o) => o,
            Err(_) => return Compilation::Continue,
        };
        let mut bodies: Vec<String> = Vec::new();
        let mut statics: Vec<String> = Vec::new();
        let mut entries: Vec<String> = Vec::new();
        let mut hash_types: BTreeSet<String> = BTreeSet::new();

        for def in tcx.hir_crate_items(()).definitions() {
            let did = def.to_def_id();
            match tcx.def_kind(did) {
                DefKind::Static { .. } => {
                    statics.push(format!(
                        "{{\"path\":{},\"ty\":{},{}}}",
                        esc(&tcx.def_path_str(did)),
                        esc(&format!("{}", tcx.type_of(did).instantiate_identity().skip_norm_wip())),
                        loc(tcx, tcx.def_span(did))
                    ));
                }
                _ => {}
            }
        }

        for def in tcx.hir_body_owners() {
            let did = def.to_def_id();
            let kind = tcx.def_kind(did);
            match kind {
                DefKind::Fn | DefKind::AssocFn | DefKind::Closure => {}
                _ => continue,
            }
            let path = tcx.def_path_str(did);
            // proc-macro entry points
            if matches!(kind, DefKind::Fn) {
                for attr in tcx.get_all_attrs(did) {
                    if attr.has_name(rustc_span::sym::proc_macro_derive) {
                        entries.push(esc(&path));
                    }
                }
            }
            let body: &mir::Body<'tcx> = tcx.optimized_mir(did);
            let typing_env = ty::TypingEnv::post_analysis(tcx, did);
            let mut locals = Vec::new();
            for vdi in &body.var_debug_info {
                let tystr = match &vdi.value {
                    mir::VarDebugInfoContents::Place(p) => format!("{}", p.ty(&body.local_decls, tcx).ty),
                    mir::VarDebugInfoContents::Const(c) => format!("{}", c.ty()),
                };
                locals.push(format!(
                    "{{\"name\":{},\"ty\":{},\"arg\":{},{}}}",
                    esc(&vdi.name.to_string()),
                    esc(&tystr),
                    vdi.argument_index.map(|i| i.to_string()).unwrap_or_else(|| "null".into()),
                    loc(tcx, vdi.source_info.span)
                ));
            }
            for decl in body.local_decls.iter() {
                collect_hash_types(tcx, decl.ty, &mut hash_types);
            }
            let mut calls = Vec::new();
            let mut asserts = Vec::new();
            let mut casts = Vec::new();
            for (bb, data) in body.basic_blocks.iter_enumerated() {
                for st in &data.statements {
                    if let StatementKind::Assign(b) = &st.kind {
                        if let Rvalue::Cast(CastKind::PointerExposeProvenance, _, t) = &b.1 {
                            casts.push(format!("{{\"to\":{},{}}}", esc(&format!("{}", t)), loc(tcx, st.source_info.span)));
                        }
                    }
                }
                let term = data.terminator();
                match &term.kind {
                    TerminatorKind::Call { func, args, fn_span, .. } | TerminatorKind::TailCall { func, args, fn_span } => {
                        let fty = func.ty(&body.local_decls, tcx);
                        let (callee, resolved, self_ty) = match fty.kind() {
                            ty::FnDef(cdid, cargs) => {
                                let unres = tcx.def_path_str_with_args(*cdid, cargs);
                                let mut res = String::new();
                                if !cargs.has_escaping_bound_vars() {
                                    if let Ok(Some(inst)) = ty::Instance::try_resolve(tcx, typing_env, *cdid, cargs) {
                                        res = tcx.def_path_str(inst.def_id());
                                    }
                                }
                                let st = if cargs.len() > 0 {
                                    cargs.get(0).and_then(|a| a.as_type()).map(|t| format!("{}", t)).unwrap_or_default()
                                } else {
                                    String::new()
                                };
                                (format!("{}|{}", tcx.def_path_str(*cdid), unres), res, st)
                            }
                            _ => (format!("<indirect:{}>", fty), String::new(), String::new()),
                        };
                        let mut it = callee.splitn(2, '|');
                        let generic = it.next().unwrap_or("").to_string();
                        let full = it.next().unwrap_or("").to_string();
                        let arg_tys: Vec<String> = args
                            .iter()
                            .map(|a| esc(&format!("{}", a.node.ty(&body.local_decls, tcx))))
                            .collect();
                        calls.push(format!(
                            "{{\"bb\":{},\"callee\":{},\"full\":{},\"resolved\":{},\"self_ty\":{},\"args\":[{}],\"macros\":{},\"from_expansion\":{},{}}}",
                            bb.index(),
                            esc(&generic),
                            esc(&full),
                            esc(&resolved),
                            esc(&self_ty),
                            arg_tys.join(","),
                            macro_chain(*fn_span),
                            fn_span.from_expansion(),
                            loc(tcx, *fn_span)
                        ));
                    }
                    TerminatorKind::Assert { msg, .. } => {
                        let k = format!("{:?}", msg);
                        let kind = k.split('(').next().unwrap_or("").to_string();
                        asserts.push(format!(
                            "{{\"bb\":{},\"kind\":{},\"detail\":{},\"macros\":{},{}}}",
                            bb.index(),
                            esc(&kind),
                            esc(&k.chars().take(160).collect::<String>()),
                            macro_chain(term.source_info.span),
                            loc(tcx, term.source_info.span)
                        ));
                    }
                    _ => {}
                }
            }
            let sig_ret = if matches!(kind, DefKind::Closure) {
                String::new()
            } else {
                format!("{}", tcx.fn_sig(did).instantiate_identity().skip_norm_wip().output().skip_binder())
            };
            bodies.push(format!(
                "{{\"path\":{},\"kind\":{},\"ret\":{},{},\"locals\":[{}],\"calls\":[{}],\"asserts\":[{}],\"casts\":[{}]}}",
                esc(&path),
                esc(&format!("{:?}", kind)),
                esc(&sig_ret),
                loc(tcx, tcx.def_span(did)),
                locals.join(","),
                calls.join(","),
                asserts.join(","),
                casts.join(",")
            ));
        }
        let hash: Vec<String> = hash_types.iter().map(|s| esc(s)).collect();
        let json = format!(
            "{{\"crate\":{},\"entries\":[{}],\"statics\":[{}],\"hash_types\":[{}],\"bodies\":[{}]}}",
            esc(&krate),
            entries.join(","),
            statics.join(","),
            hash.join(","),
            bodies.join(",\n")
        );
        std::fs::write(&out, json).expect("dmmir: cannot write DMMIR_OUT");
        Compilation::Continue
    }
}

fn main() {
    let mut args: Vec<String> = std::env::args().collect();
    // RUSTC_WORKSPACE_WRAPPER passes the real rustc path as argv[1]
    if args.len() > 1 && (args[1].ends_with("rustc") || args[1].contains("/rustc")) {
        args.remove(1);
    }
    rustc_driver::run_compiler(&args, &mut Cb);
}
