//! dmast: parse Rust source files with `syn` and dump the complete syntax tree as JSON.
//!
//! The tree is obtained from syn's own `Debug` rendering (feature `extra-traits`), which is a
//! regular language: `Name { field: value, .. }`, `Name(value, ..)`, `[..]`, `(..)`, bare words and
//! a handful of raw scalars (`sym`, `lit`, `token`, `char`, `bytes(a..b)`). It is converted into
//! JSON here so that the rule engine (python) can query every node generically:
//!
//!   `Name { a: X }`      -> {"_": "Name", "a": X}
//!   `Name(X, Y)`         -> {"_": "Name", "0": X, "1": Y}
//!   `Some(X)` / `None`   -> X / null
//!   `[..]`, `(..)`, `TokenStream [..]` -> [..]
//!   `bytes(a..b)`        -> [a-1, b-1]   (0-based byte offsets into the file)
//!   bare word            -> "word" (true/false/integers become JSON scalars)
//!
//! Every file is parsed on a fresh thread so that proc-macro2's thread-local source map starts
//! at offset 1 for each file. Any text this converter does not understand aborts the run
//! (fail closed) instead of producing a partial tree.
//!
//! usage: dmast <out.json> <file.rs>...

use serde_json::{json, Map, Value};

struct P<'a> {
    s: &'a [u8],
    i: usize,
}

impl<'a> P<'a> {
    fn ws(&mut self) {
        while self.i < self.s.len() && (self.s[self.i] as char).is_whitespace() {
            self.i += 1;
        }
    }
    fn peek(&self) -> u8 {
        if self.i < self.s.len() {
            self.s[self.i]
        } else {
            0
        }
    }
    fn err(&self, m: &str) -> ! {
        let lo = self.i.saturating_sub(80);
        let hi = (self.i + 80).min(self.s.len());
        panic!(
            "dmast: debug-text parse error: {} at {}: ...{}<<HERE>>{}...",
            m,
            self.i,
            String::from_utf8_lossy(&self.s[lo..self.i]),
            String::from_utf8_lossy(&self.s[self.i..hi])
        );
    }
    fn expect(&mut self, c: u8) {
        self.ws();
        if self.peek() != c {
            self.err(&format!("expected {:?}", c as char));
        }
        self.i += 1;
    }
    fn word(&mut self) -> String {
        // identifier-ish word, allowing `::` inside (Expr::Call) and a leading r# (raw idents).
        let st = self.i;
        while self.i < self.s.len() {
            let c = self.s[self.i];
            if c.is_ascii_alphanumeric() || c == b'_' || c >= 0x80 {
                self.i += 1;
            } else if c == b':' && self.i + 1 < self.s.len() && self.s[self.i + 1] == b':' {
                self.i += 2;
            } else if c == b'#' && self.i == st + 1 && self.s[st] == b'r' {
                self.i += 1;
            } else {
                break;
            }
        }
        String::from_utf8(self.s[st..self.i].to_vec()).unwrap()
    }

    /// A raw literal as proc-macro2 prints it (`lit: ..`, `token: ..`, `char: ..`).
    fn raw_scalar(&mut self) -> Value {
        self.ws();
        let st = self.i;
        // optional prefix b / r / br / c / cr followed by #* and a quote
        let mut j = self.i;
        while j < self.s.len() && matches!(self.s[j], b'b' | b'r' | b'c') && j - st < 2 {
            j += 1;
        }
        let mut hashes = 0;
        let mut k = j;
        while k < self.s.len() && self.s[k] == b'#' {
            hashes += 1;
            k += 1;
        }
        let raw = self.s[st..j].contains(&b'r');
        if k < self.s.len() && self.s[k] == b'"' && (raw || hashes == 0) {
            // string literal
            let mut m = k + 1;
            if raw {
                loop {
                    if m >= self.s.len() {
                        self.err("unterminated raw string");
                    }
                    if self.s[m] == b'"' && self.s[m + 1..].iter().take(hashes).all(|&c| c == b'#')
                        && self.s.len() >= m + 1 + hashes
                    {
                        m += 1 + hashes;
                        break;
                    }
                    m += 1;
                }
            } else {
                loop {
                    if m >= self.s.len() {
                        self.err("unterminated string");
                    }
                    match self.s[m] {
                        b'\\' => m += 2,
                        b'"' => {
                            m += 1;
                            break;
                        }
                        _ => m += 1,
                    }
                }
            }
            // optional suffix
            while m < self.s.len() && (self.s[m].is_ascii_alphanumeric() || self.s[m] == b'_') {
                m += 1;
            }
            self.i = m;
            let text = String::from_utf8(self.s[st..m].to_vec()).unwrap();
            let decoded = match syn::parse_str::<syn::Lit>(&text) {
                Ok(syn::Lit::Str(s)) => Value::String(s.value()),
                _ => Value::Null,
            };
            return json!({"_": "lit", "kind": "str", "repr": text, "value": decoded});
        }
        if self.s[st] == b'\'' || (self.s[st] == b'b' && self.s.get(st + 1) == Some(&b'\'')) {
            let mut m = if self.s[st] == b'b' { st + 2 } else { st + 1 };
            loop {
                if m >= self.s.len() {
                    self.err("unterminated char");
                }
                match self.s[m] {
                    b'\\' => m += 2,
                    b'\'' => {
                        m += 1;
                        break;
                    }
                    _ => m += 1,
                }
            }
            self.i = m;
            let text = String::from_utf8(self.s[st..m].to_vec()).unwrap();
            let decoded = match syn::parse_str::<syn::Lit>(&text) {
                Ok(syn::Lit::Char(c)) => Value::String(c.value().to_string()),
                _ => Value::Null,
            };
            return json!({"_": "lit", "kind": "char", "repr": text, "value": decoded});
        }
        // number / bool / other: up to the next `,` or ` }` or `)`
        let mut m = st;
        while m < self.s.len() && !matches!(self.s[m], b',' | b' ' | b'}' | b')' | b']') {
            m += 1;
        }
        self.i = m;
        let text = String::from_utf8(self.s[st..m].to_vec()).unwrap();
        json!({"_": "lit", "kind": "num", "repr": text})
    }

    fn list(&mut self, close: u8) -> Value {
        let mut v = Vec::new();
        loop {
            self.ws();
            if self.peek() == close {
                self.i += 1;
                break;
            }
            let item = self.value(None);
            // `Punctuated` prints its separators as bare words between the elements: drop them
            // (square-bracket lists only; tuples keep their tokens).
            if !(close == b']' && matches!(item, Value::String(_))) {
                v.push(item);
            }
            self.ws();
            if self.peek() == b',' {
                self.i += 1;
            }
        }
        Value::Array(v)
    }

    fn value(&mut self, key: Option<&str>) -> Value {
        self.ws();
        if let Some(k) = key {
            if k == "Literal.lit" || k == "Punct.char" || (k.starts_with("Lit::") && k.ends_with(".token")) {
                // `token:` is also used by keyword/punct token fields in a few syn structs
                // (e.g. `Visibility::Restricted { pub_token: .. }` uses *_token, not `token`),
                // and `Lit::* { token: .. }` always holds a literal.
                return self.raw_scalar();
            }
        }
        match self.peek() {
            b'[' => {
                self.i += 1;
                self.list(b']')
            }
            b'(' => {
                self.i += 1;
                self.list(b')')
            }
            b'"' | b'\'' => self.raw_scalar(),
            c if c.is_ascii_digit() || c == b'-' => {
                let st = self.i;
                self.i += 1;
                while self.i < self.s.len() && (self.s[self.i].is_ascii_alphanumeric() || self.s[self.i] == b'_') {
                    self.i += 1;
                }
                let t = std::str::from_utf8(&self.s[st..self.i]).unwrap();
                match t.parse::<i64>() {
                    Ok(n) => json!(n),
                    Err(_) => json!(t),
                }
            }
            _ => {
                let w = self.word();
                if w.is_empty() {
                    self.err("expected a value");
                }
                if key == Some("Ident.sym") {
                    return Value::String(w);
                }
                self.ws();
                match self.peek() {
                    b'{' => {
                        self.i += 1;
                        let mut m = Map::new();
                        m.insert("_".into(), Value::String(w.clone()));
                        loop {
                            self.ws();
                            if self.peek() == b'}' {
                                self.i += 1;
                                break;
                            }
                            let k = self.word();
                            if k.is_empty() {
                                self.err("expected a field name");
                            }
                            self.expect(b':');
                            let v = self.value(Some(&format!("{}.{}", w, k)));
                            m.insert(k, v);
                            self.ws();
                            if self.peek() == b',' {
                                self.i += 1;
                            }
                        }
                        Value::Object(m)
                    }
                    b'(' => {
                        self.i += 1;
                        if w == "bytes" {
                            // bytes(a..b)
                            let st = self.i;
                            while self.peek() != b')' {
                                self.i += 1;
                            }
                            let t = std::str::from_utf8(&self.s[st..self.i]).unwrap().to_string();
                            self.i += 1;
                            let mut it = t.split("..");
                            let a: i64 = it.next().unwrap().parse().unwrap();
                            let b: i64 = it.next().unwrap().parse().unwrap();
                            return json!([a - 1, b - 1]);
                        }
                        let items = match self.list(b')') {
                            Value::Array(a) => a,
                            _ => unreachable!(),
                        };
                        if w == "Some" && items.len() == 1 {
                            return items.into_iter().next().unwrap();
                        }
                        let mut m = Map::new();
                        m.insert("_".into(), Value::String(w));
                        for (n, it) in items.into_iter().enumerate() {
                            m.insert(n.to_string(), it);
                        }
                        Value::Object(m)
                    }
                    b'[' if w == "TokenStream" => {
                        self.i += 1;
                        self.list(b']')
                    }
                    _ => match w.as_str() {
                        "None" => Value::Null,
                        "true" => Value::Bool(true),
                        "false" => Value::Bool(false),
                        _ => Value::String(w),
                    },
                }
            }
        }
    }
}

fn convert(text: &str) -> Value {
    let mut p = P { s: text.as_bytes(), i: 0 };
    let v = p.value(None);
    p.ws();
    if p.i != p.s.len() {
        p.err("trailing text");
    }
    v
}

fn main() {
    let args: Vec<String> = std::env::args().collect();
    if args.len() < 3 {
        eprintln!("usage: dmast <out.json> <file.rs>...");
        std::process::exit(2);
    }
    let mut handles = Vec::new();
    for path in args[2..].iter().cloned() {
        handles.push(
            std::thread::Builder::new()
                .stack_size(256 << 20)
                .spawn(move || {
                    let src = std::fs::read_to_string(&path)
                        .unwrap_or_else(|e| panic!("dmast: cannot read {}: {}", path, e));
                    let file: syn::File = syn::parse_file(&src)
                        .unwrap_or_else(|e| panic!("dmast: cannot parse {}: {}", path, e));
                    let dbg = format!("{:?}", file);
                    let ast = convert(&dbg);
                    (path, src, ast)
                })
                .unwrap(),
        );
    }
    let mut out = Map::new();
    for h in handles {
        let (path, src, ast) = h.join().unwrap_or_else(|_| std::process::exit(3));
        out.insert(path, json!({"src": src, "ast": ast}));
    }
    std::fs::write(&args[1], serde_json::to_vec(&Value::Object(out)).unwrap()).unwrap();
}
